SPECIFICATION Spec
CONSTANTS
  MODE = "prunea"
  K = 2
  NF = 1
  NG = 1
  PF = "p1x"
  TF = "t12"
  PG = "p1y"
  TG = "t12"
  LAYOUTS = {"dfs"}
  EMIT = TRUE
VIEW View
INVARIANTS LawPrune LawCache LawEffective ResultWellFormed
ACTION_CONSTRAINT Emit
CHECK_DEADLOCK FALSE
