SPECIFICATION Spec
CONSTANTS
  MODE = "arith"
  K = 4
  NF = 1
  NG = 1
  PF = "pp2m"
  TF = "t22s"
  PG = "pp2k"
  TG = "t22ds"
  LAYOUTS = {"dfs"}
  EMIT = TRUE
VIEW View
INVARIANTS LawArith ResultWellFormed
ACTION_CONSTRAINT Emit
CHECK_DEADLOCK FALSE
