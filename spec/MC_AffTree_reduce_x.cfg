SPECIFICATION Spec
CONSTANTS
  MODE = "reduce"
  K = 2
  NF = 2
  NG = 0
  PF = "p2s"
  TF = "t22x"
  PG = "p2s"
  TG = "t22c"
  LAYOUTS = {"dfs"}
  EMIT = TRUE
VIEW View
INVARIANTS LawReduce ResultWellFormed
ACTION_CONSTRAINT Emit
CHECK_DEADLOCK FALSE
