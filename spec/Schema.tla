------------------------------- MODULE Schema -------------------------------
(* distill::schema and the AffTree constructors: for every predefined tree      *)
(*   L1  the abstract tree the generator builds (node for node, as schema.rs),   *)
(*   L0  the textbook definition as a set of pieces (independent of any tree),   *)
(* and the network semantics NetPieces used by C01 (activation patterns, no      *)
(* trees involved).  A spec is a record [name, dim, row, q, ...params]; all      *)
(* parameters are integers scaled by spec.q.                                     *)
EXTENDS TreeGen

AffS(m, b, q) == [m |-> m, b |-> b, q |-> q]
IdQ(d, q) == AffS(MScale(q, Eye(d)), ZeroVec(d), q)
\* identity with row r (0-based) replaced by  coef * x_r + bias  (coef, bias scaled by q)
RowMod(d, r, coef, bias, q) ==
    AffS([i \in 1..d |-> IF i = r + 1 THEN Scale(coef, UnitVec(d, i)) ELSE Scale(q, UnitVec(d, i))],
         [i \in 1..d |-> IF i = r + 1 THEN bias ELSE 0], q)
UnitPred(d, r, sign, bias, q) == AffS(<<Scale(sign * q, UnitVec(d, r + 1))>>, <<bias>>, q)     \* sign * x_r <= bias/q
ConstF(d, v, q) == AffS(<<ZeroVec(d)>>, <<v>>, q)
SubPred(d, l, r) == AffS(<<[i \in 1..d |-> (IF i = l + 1 THEN 1 ELSE 0) - (IF i = r + 1 THEN 1 ELSE 0)]>>, <<0>>, 1)   \* x_l - x_r <= 0

\* ------------------------------------------------------------------ L1: the trees as schema.rs builds them (kids = <<label 0, label 1>>)
RECURSIVE ArgmaxTree(_, _, _)
\* subtree deciding between the current maximum candidates; mf / mt = index that is maximal when the predicate is false / true
ArgmaxTree(d, mf, mt) ==
    IF mf < d - 1
    THEN <<Dec(SubPred(d, mf + 1, mf), ArgmaxTree(d, mf + 1, mf)), Dec(SubPred(d, mf + 1, mt), ArgmaxTree(d, mf + 1, mt))>>
    ELSE <<Leaf(ConstF(d, mf, 1)), Leaf(ConstF(d, mt, 1))>>
RECURSIVE ChainTree(_, _, _, _)
\* chain of predicates (all must hold): label 0 -> no, label 1 -> next predicate / yes
ChainTree(preds, j, yes, no) ==
    IF j > Len(preds) THEN yes
    ELSE Dec(preds[j], <<no, ChainTree(preds, j + 1, yes, no)>>)

SchemaTree(s) ==
    LET d == s.dim  r == s.row  q == s.q IN
    CASE s.name = "partial_ReLU" -> Dec(UnitPred(d, r, 1, 0, 1), <<Leaf(IdQ(d, 1)), Leaf(RowMod(d, r, 0, 0, 1))>>)
      [] s.name = "partial_leaky_ReLU" -> Dec(UnitPred(d, r, 1, 0, q), <<Leaf(IdQ(d, q)), Leaf(RowMod(d, r, s.alpha, 0, q))>>)
      [] s.name = "partial_hard_tanh" ->
            Dec(UnitPred(d, r, -1, -s.max, q), <<Dec(UnitPred(d, r, 1, s.min, q), <<Leaf(IdQ(d, q)), Leaf(RowMod(d, r, 0, s.min, q))>>),
                                                 Leaf(RowMod(d, r, 0, s.max, q))>>)
      [] s.name = "partial_hard_shrink" ->      \* identity only for x > lambda and x < -lambda (value 0 at the two discontinuities)
            Dec(UnitPred(d, r, 1, s.lambda, q), <<Leaf(IdQ(d, q)), Dec(UnitPred(d, r, -1, s.lambda, q), <<Leaf(IdQ(d, q)), Leaf(RowMod(d, r, 0, 0, q))>>)>>)
      [] s.name = "partial_hard_sigmoid" ->          \* q = 6
            Dec(UnitPred(d, r, -1, -3 * q, q), <<Dec(UnitPred(d, r, 1, -3 * q, q), <<Leaf(RowMod(d, r, 1, 3, 6)), Leaf(RowMod(d, r, 0, 0, q))>>),
                                                Leaf(RowMod(d, r, 0, q, q))>>)
      [] s.name = "partial_threshold" -> Dec(UnitPred(d, r, 1, s.threshold, q), <<Leaf(IdQ(d, q)), Leaf(RowMod(d, r, 0, s.value, q))>>)
      [] s.name = "argmax" -> Dec(SubPred(d, 1, 0), ArgmaxTree(d, 1, 0))
      [] s.name = "class_characterization" ->
            LET others == SelectSeq([i \in 1..d |-> i - 1], LAMBDA i : i # s.clazz)
            IN ChainTree([j \in 1..Len(others) |-> SubPred(d, others[j], s.clazz)], 1, Leaf(ConstF(d, 1, 1)), Leaf(ConstF(d, 0, 1)))
      [] s.name = "inf_norm" ->
            LET mins == IF s.hasmin THEN [i \in 1..d |-> UnitPred(d, i - 1, -1, -s.min, q)] ELSE <<>>
                maxs == IF s.hasmax THEN [i \in 1..d |-> UnitPred(d, i - 1, 1, s.max, q)] ELSE <<>>
            IN ChainTree(mins \o maxs, 1, Leaf(ConstF(d, q, q)), Leaf(ConstF(d, 0, q)))
      [] s.name = "from_poly" ->
            ChainTree([j \in 1..Len(s.poly.m) |-> AffS(<<s.poly.m[j]>>, <<s.poly.b[j]>>, s.poly.q)], 1, Leaf(s.t), IF s.hasf THEN Leaf(s.f) ELSE Missing)
      [] s.name = "new" -> Leaf(IdQ(d, 1))
      [] s.name = "from_aff" -> Leaf(s.aff)

\* ------------------------------------------------------------------ L0: textbook definitions as pieces
OutOf(a) == Out(a.m, a.b, a.q)
Piece(C, a) == [cons |-> C, out |-> OutOf(a)]
XLe(d, r, v, q) == Le(Scale(q, UnitVec(d, r + 1)), v)          \* x_r <= v/q
XLt(d, r, v, q) == Lt(Scale(q, UnitVec(d, r + 1)), v)
XGe(d, r, v, q) == Le(Scale(-q, UnitVec(d, r + 1)), -v)
XGt(d, r, v, q) == Lt(Scale(-q, UnitVec(d, r + 1)), -v)
DiffLe(d, i, j) == Le(VSub(UnitVec(d, i + 1), UnitVec(d, j + 1)), 0)      \* x_i <= x_j
DiffLt(d, i, j) == Lt(VSub(UnitVec(d, i + 1), UnitVec(d, j + 1)), 0)      \* x_i <  x_j

Textbook(s) ==
    LET d == s.dim  r == s.row  q == s.q IN
    CASE s.name = "partial_ReLU" -> {Piece({XLe(d, r, 0, 1)}, RowMod(d, r, 0, 0, 1)), Piece({XGt(d, r, 0, 1)}, IdQ(d, 1))}        \* max(0, x_r)
      [] s.name = "partial_leaky_ReLU" -> {Piece({XGt(d, r, 0, q)}, IdQ(d, q)), Piece({XLe(d, r, 0, q)}, RowMod(d, r, s.alpha, 0, q))}
      [] s.name = "partial_hard_tanh" ->        \* clamp to [min, max]
            {Piece({XGe(d, r, s.max, q)}, RowMod(d, r, 0, s.max, q)), Piece({XLe(d, r, s.min, q), XLt(d, r, s.max, q)}, RowMod(d, r, 0, s.min, q)),
             Piece({XGt(d, r, s.min, q), XLt(d, r, s.max, q)}, IdQ(d, q))}
      [] s.name = "partial_hard_shrink" ->      \* x if |x| > lambda else 0
            {Piece({XGt(d, r, s.lambda, q)}, IdQ(d, q)), Piece({XLt(d, r, -s.lambda, q)}, IdQ(d, q)),
             Piece({XLe(d, r, s.lambda, q), XGe(d, r, -s.lambda, q)}, RowMod(d, r, 0, 0, q))}
      [] s.name = "partial_hard_sigmoid" ->     \* 0 if x <= -3, 1 if x >= 3, x/6 + 1/2 otherwise  (q = 6)
            {Piece({XLe(d, r, -3 * q, q)}, RowMod(d, r, 0, 0, q)), Piece({XGe(d, r, 3 * q, q)}, RowMod(d, r, 0, q, q)),
             Piece({XGt(d, r, -3 * q, q), XLt(d, r, 3 * q, q)}, RowMod(d, r, 1, 3, 6))}
      [] s.name = "partial_threshold" -> {Piece({XGt(d, r, s.threshold, q)}, IdQ(d, q)), Piece({XLe(d, r, s.threshold, q)}, RowMod(d, r, 0, s.value, q))}
      [] s.name = "argmax" ->                   \* first index of a maximal component
            {Piece({DiffLt(d, j, i) : j \in 0..(i - 1)} \cup {DiffLe(d, j, i) : j \in (i + 1)..(d - 1)}, ConstF(d, i, 1)) : i \in 0..(d - 1)}
      [] s.name = "class_characterization" ->   \* 1 iff x_c is maximal (ties included)
            {Piece({DiffLe(d, j, s.clazz) : j \in (0..(d - 1)) \ {s.clazz}}, ConstF(d, 1, 1))}
            \cup {Piece({DiffLt(d, s.clazz, j)}, ConstF(d, 0, 1)) : j \in (0..(d - 1)) \ {s.clazz}}
      [] s.name = "inf_norm" ->
            LET inside == (IF s.hasmin THEN {XGe(d, i, s.min, q) : i \in 0..(d - 1)} ELSE {}) \cup (IF s.hasmax THEN {XLe(d, i, s.max, q) : i \in 0..(d - 1)} ELSE {})
            IN {Piece(inside, ConstF(d, q, q))} \cup {Piece({Not(c)}, ConstF(d, 0, q)) : c \in inside}
      [] s.name = "from_poly" ->
            LET inside == {Le(s.poly.m[j], s.poly.b[j]) : j \in 1..Len(s.poly.m)}
            IN {Piece(inside, s.t)} \cup {[cons |-> {Not(c)}, out |-> IF s.hasf THEN OutOf(s.f) ELSE U] : c \in inside}
      [] s.name = "new" -> {Piece({}, IdQ(d, 1))}
      [] s.name = "from_aff" -> {Piece({}, s.aff)}

\* ------------------------------------------------------------------ networks (C01): layers and their textbook semantics
\* layer = [k |-> "linear", a |-> aff] | [k |-> "relu" | "leaky" | "hard_tanh" | "hard_sigmoid", row, ...] | [k |-> "argmax"] | [k |-> "class_char", c]
LayerSpec(l, d) ==
    CASE l.k = "relu" -> [name |-> "partial_ReLU", dim |-> d, row |-> l.row, q |-> 1]
      [] l.k = "leaky" -> [name |-> "partial_leaky_ReLU", dim |-> d, row |-> l.row, q |-> l.q, alpha |-> l.alpha]
      [] l.k = "hard_tanh" -> [name |-> "partial_hard_tanh", dim |-> d, row |-> l.row, q |-> 1, min |-> -1, max |-> 1]
      [] l.k = "hard_sigmoid" -> [name |-> "partial_hard_sigmoid", dim |-> d, row |-> l.row, q |-> 6]
      [] l.k = "argmax" -> [name |-> "argmax", dim |-> d, row |-> 0, q |-> 1]
      [] l.k = "class_char" -> [name |-> "class_characterization", dim |-> d, row |-> 0, q |-> 1, clazz |-> l.c]
LayerPieces(l, d) == IF l.k = "linear" THEN {Piece({}, l.a)} ELSE Textbook(LayerSpec(l, d))
LayerOutDim(l, d) == CASE l.k = "linear" -> Len(l.a.m) [] l.k \in {"argmax", "class_char"} -> 1 [] OTHER -> d
RECURSIVE NetFold(_, _, _, _)
NetFold(F, layers, j, d) == IF j > Len(layers) THEN F ELSE NetFold(ComposePieces(F, LayerPieces(layers[j], d)), layers, j + 1, LayerOutDim(layers[j], d))
\* pre: [kind |-> "none"] | [kind |-> "poly", poly |-> p]  (inputs outside the precondition are undefined)
PrePieces(pre, d) ==
    IF pre.kind = "none" THEN {Piece({}, IdQ(d, 1))}
    ELSE LET inside == {Le(pre.poly.m[j], pre.poly.b[j]) : j \in 1..Len(pre.poly.m)}
         IN {Piece(inside, IdQ(d, 1))} \cup {[cons |-> {Not(c)}, out |-> U] : c \in inside}
NetPieces(layers, pre, d) == NetFold(PrePieces(pre, d), layers, 1, d)

\* activation patterns: the same fold, but every piece carries the sequence of layer pieces it came from, so that two patterns
\* with the same constraint set and output stay distinct (needed to count regions, C06)
RECURSIVE PatternFold(_, _, _, _)
PatternFold(F, layers, j, d) ==
    IF j > Len(layers) THEN F
    ELSE LET G == LayerPieces(layers[j], d)
             step == UNION {IF p.out.u THEN {p}
                            ELSE {[cons |-> p.cons \cup {Pull(c, p.out, 1) : c \in g.cons}, out |-> ComposeOut(g.out, p.out), tag |-> Append(p.tag, g)] : g \in G}
                            : p \in F}
         IN PatternFold(step, layers, j + 1, LayerOutDim(layers[j], d))
NetPatterns(layers, d) == PatternFold({[cons |-> {}, out |-> OutOf(IdQ(d, 1)), tag |-> <<>>]}, layers, 1, d)

\* ------------------------------------------------------------------ L1: afftree_from_layers (compose, prune after every activation, pruned compose for the heads)
RECURSIVE DistillFold(_, _, _, _)
DistillFold(t, layers, j, d) ==
    IF j > Len(layers) THEN t
    ELSE LET l == layers[j] IN
         DistillFold(CASE l.k = "linear" -> ApplyFunc(t, l.a)
                       [] l.k \in {"argmax", "class_char"} -> ComposePruned(t, BuildTree(SchemaTree(LayerSpec(l, d)), 2, "dfs"))
                       [] OTHER -> Eliminate(Compose(t, BuildTree(SchemaTree(LayerSpec(l, d)), 2, "dfs"))),
                     layers, j + 1, LayerOutDim(l, d))
PreTree(pre, d) ==
    IF pre.kind = "none" THEN FromAff(IdQ(d, 1), 2)
    ELSE BuildTree(SchemaTree([name |-> "from_poly", dim |-> d, row |-> 0, q |-> 1, poly |-> pre.poly, t |-> IdQ(d, 1), hasf |-> FALSE, f |-> IdQ(d, 1)]), 2, "dfs")
Distill(layers, pre, d) == DistillFold(PreTree(pre, d), layers, 1, d)
=============================================================================
