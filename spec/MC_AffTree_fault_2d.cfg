SPECIFICATION Spec
CONSTANTS
  MODE = "fault"
  K = 2
  NF = 2
  NG = 1
  PF = "p2a"
  TF = "t22s"
  PG = "p1f"
  TG = "t12"
  LAYOUTS = {"dfs"}
  EMIT = TRUE
VIEW View
INVARIANTS LawFault ResultWellFormed
ACTION_CONSTRAINT Emit
CHECK_DEADLOCK FALSE
