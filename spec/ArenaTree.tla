----------------------------- MODULE ArenaTree -----------------------------
(* L1 model of affinitree::tree::graph::Tree<N, K>: a slab arena with LIFO   *)
(* index reuse, one action per public mutator, every error branch included.  *)
(* The operators are written over explicit state records so that the same    *)
(* definitions are used by the model checker (MC_Arena) and by the trace      *)
(* validator (Trace_Arena) on states recorded from the Rust implementation.  *)
EXTENDS Vec

NONE == -1

\* A tree state is a record
\*   [nodes : [Idx -> node], root : Int, free : Seq(Int), slen : Nat]
\* where dom(nodes) is the set of occupied slab slots and a node is
\*   [v : value, p : parent or NONE, ch : Seq of K child slots (NONE = empty), leaf : BOOLEAN]
Occ(t) == DOMAIN t.nodes
NodeAt(t, i) == t.nodes[i]
NewNode(v, p, K) == [v |-> v, p |-> p, ch |-> [l \in 1..K |-> NONE], leaf |-> TRUE]
NumChildren(nd) == Cardinality({l \in 1..Len(nd.ch) : nd.ch[l] # NONE})
ChildrenOf(nd) == {nd.ch[l] : l \in {k \in 1..Len(nd.ch) : nd.ch[k] # NONE}}

EmptyTree == [nodes |-> <<>>, root |-> NONE, free |-> <<>>, slen |-> 0]

\* slab: next key = head of the free list (LIFO) or a fresh slot
NextKey(t) == IF t.free # <<>> THEN Head(t.free) ELSE t.slen
SlabInsert(t, nd) ==
    LET k == NextKey(t)
    IN [t EXCEPT !.nodes = [i \in Occ(t) \cup {k} |-> IF i = k THEN nd ELSE t.nodes[i]],
                 !.free = IF t.free # <<>> THEN Tail(t.free) ELSE t.free,
                 !.slen = IF t.free # <<>> THEN t.slen ELSE t.slen + 1]
SlabRemove(t, k) ==
    [t EXCEPT !.nodes = [i \in Occ(t) \ {k} |-> t.nodes[i]], !.free = <<k>> \o t.free]
SetNode(t, i, nd) == [t EXCEPT !.nodes[i] = nd]

\* ---------------------------------------------------------------- reachability
\* proper descendants of i; the recursion is bounded by the number of stored nodes, so that it also terminates on recorded
\* states whose child links form a cycle (such states violate ChildAcyclic and are reported, not explored)
RECURSIVE DescB(_, _, _)
DescB(t, i, fuel) == IF fuel = 0 THEN {}
                     ELSE LET cs == ChildrenOf(t.nodes[i]) \cap Occ(t)
                          IN cs \cup UNION {DescB(t, c, fuel - 1) : c \in cs}
Desc(t, i) == DescB(t, i, Cardinality(Occ(t)))
ChildAcyclic(t) == \A i \in Occ(t) : i \notin Desc(t, i)
Subtree(t, i) == {i} \cup Desc(t, i)

\* order in which remove_all_descendants vacates slots: explicit stack, children in label
\* order, pop from the end, push the popped node's children in label order
RECURSIVE RemovalOrder(_, _, _)
RemovalOrder(t, stack, acc) ==
    IF stack = <<>> \/ Len(acc) > Cardinality(Occ(t)) THEN acc             \* second disjunct: only on cyclic (corrupt) recorded states
    ELSE LET n == stack[Len(stack)]
             rest == SubSeq(stack, 1, Len(stack) - 1)
             nd == t.nodes[n]
             kids == SelectSeq(nd.ch, LAMBDA c : c # NONE)
         IN IF n \notin Occ(t) THEN acc ELSE RemovalOrder(t, rest \o kids, Append(acc, n))

RECURSIVE RemoveSeq(_, _, _)
RemoveSeq(t, order, k) == IF k > Len(order) THEN t ELSE RemoveSeq(SlabRemove(t, order[k]), order, k + 1)

\* ---------------------------------------------------------------- actions (functions state -> [t, res, ret])
Ok(t, ret) == [t |-> t, res |-> "ok", ret |-> ret]
Err(t, why) == [t |-> t, res |-> "err", ret |-> NONE, why |-> why]
Panic(t) == [t |-> t, res |-> "panic", ret |-> NONE]

AddRoot(t, v, K) ==
    LET k == NextKey(t) IN Ok([SlabInsert(t, NewNode(v, NONE, K)) EXCEPT !.root = k], k)

\* label l is 0-based as in the Rust API; slots are 1-based here
AddChild(t, p, l, v, K) ==
    IF p \notin Occ(t) THEN Err(t, "InvalidIndex")
    ELSE IF l >= K THEN Panic(t)
    ELSE IF t.nodes[p].ch[l + 1] # NONE THEN Err(t, "ChildExists")
    ELSE LET k == NextKey(t)
             t1 == SlabInsert(t, NewNode(v, p, K))
         IN Ok(SetNode(t1, p, [t.nodes[p] EXCEPT !.ch[l + 1] = k, !.leaf = FALSE]), k)

RemoveAllDesc(t, n) ==
    IF n \notin Occ(t) THEN Err(t, "InvalidIndex")
    ELSE LET order == RemovalOrder(t, SelectSeq(t.nodes[n].ch, LAMBDA c : c # NONE), <<>>)
             t1 == RemoveSeq(t, order, 1)
         IN Ok(SetNode(t1, n, [t.nodes[n] EXCEPT !.ch = [l \in 1..Len(t.nodes[n].ch) |-> NONE], !.leaf = TRUE]),
               Len(order))

TryRemoveChild(t, p, l, K) ==
    IF p \notin Occ(t) THEN Err(t, "InvalidIndex")
    ELSE IF l >= K THEN Panic(t)
    ELSE IF t.nodes[p].ch[l + 1] = NONE THEN Err(t, "MissingChild")
    ELSE LET c == t.nodes[p].ch[l + 1]
             t1 == RemoveAllDesc(t, c).t
             pn == [t1.nodes[p] EXCEPT !.ch[l + 1] = NONE]
             t2 == SetNode(t1, p, [pn EXCEPT !.leaf = (NumChildren(pn) = 0)])
         IN Ok(SlabRemove(t2, c), c)

MergeChild(t, p, l, K) ==
    IF p \notin Occ(t) THEN Panic(t)
    ELSE IF NumChildren(t.nodes[p]) # 1 THEN Panic(t)
    ELSE IF t.root = p THEN Err(t, "RootNode")
    ELSE IF l >= K THEN Panic(t)
    ELSE IF t.nodes[p].ch[l + 1] = NONE THEN Err(t, "MissingChild")
    ELSE IF t.nodes[p].p = NONE THEN Err(t, "MissingParent")      \* an orphaned former root (after add_root on a non-empty tree)
    ELSE LET c == t.nodes[p].ch[l + 1]
             g == t.nodes[p].p
             gl == CHOOSE s \in 1..K : t.nodes[g].ch[s] = p
             t1 == SetNode(SetNode(t, g, [t.nodes[g] EXCEPT !.ch[gl] = c]), c, [t.nodes[c] EXCEPT !.p = g])
         IN Ok(SlabRemove(t1, p), p)

UpdateNode(t, i, v) ==
    IF i \notin Occ(t) THEN Err(t, "InvalidIndex")
    ELSE Ok(SetNode(t, i, [t.nodes[i] EXCEPT !.v = v]), i)

\* ---------------------------------------------------------------- read-only accessors (what the query API must answer in state t)
\* an edge answer: [res, src, label (0-based), dst, sv, tv]; a scalar answer: [res, v]
QNoEdge(res) == [res |-> res, src |-> NONE, label |-> NONE, dst |-> NONE, sv |-> NONE, tv |-> NONE]
QEdge(t, s, l, d) == [res |-> "ok", src |-> s, label |-> l, dst |-> d, sv |-> t.nodes[s].v, tv |-> t.nodes[d].v]
QScalar(res, v) == [res |-> res, v |-> v]
\* parent(i): the edge from the parent; the label is found by a linear search (first matching slot); a parent that does
\* not list the node is the documented "data structure corrupted" panic
QParent(t, i) ==
    IF i \notin Occ(t) \/ t.nodes[i].p = NONE \/ t.nodes[i].p \notin Occ(t) THEN QNoEdge("err")
    ELSE LET p == t.nodes[i].p
             ls == {s \in 1..Len(t.nodes[p].ch) : t.nodes[p].ch[s] = i}
         IN IF ls = {} THEN QNoEdge("panic") ELSE QEdge(t, p, (CHOOSE s \in ls : \A u \in ls : s <= u) - 1, i)
QChild(t, i, l) ==
    IF i \notin Occ(t) \/ t.nodes[i].ch[l + 1] = NONE \/ t.nodes[i].ch[l + 1] \notin Occ(t) THEN QNoEdge("err")
    ELSE QEdge(t, i, l, t.nodes[i].ch[l + 1])
\* children(i): existing children by ascending label; panics on a vacant index
QChildren(t, i) ==
    IF i \notin Occ(t) \/ \E s \in 1..Len(t.nodes[i].ch) : t.nodes[i].ch[s] # NONE /\ t.nodes[i].ch[s] \notin Occ(t) THEN [res |-> "panic", list |-> <<>>]
    ELSE LET RECURSIVE G(_) G(s) == IF s > Len(t.nodes[i].ch) THEN <<>> ELSE (IF t.nodes[i].ch[s] = NONE THEN <<>> ELSE <<QEdge(t, i, s - 1, t.nodes[i].ch[s])>>) \o G(s + 1)
         IN [res |-> "ok", list |-> G(1)]
QIsLeaf(t, i) == IF i \in Occ(t) THEN QScalar("ok", IF t.nodes[i].leaf THEN 1 ELSE 0) ELSE QScalar("err", NONE)
QValue(t, i) == IF i \in Occ(t) THEN QScalar("ok", t.nodes[i].v) ELSE QScalar("err", NONE)
QNumChildren(t, i) == IF i \in Occ(t) THEN QScalar("ok", NumChildren(t.nodes[i])) ELSE QScalar("panic", NONE)
QIsRoot(t, i) == t.root # NONE /\ t.root = i
QContains(t, i) == i \in Occ(t)

\* ---------------------------------------------------------------- property C12: structural consistency
LinksMirror(t) ==
    \A i \in Occ(t) :
        LET nd == t.nodes[i] IN
        /\ nd.p # NONE => nd.p \in Occ(t) /\ Cardinality({l \in 1..Len(t.nodes[nd.p].ch) : t.nodes[nd.p].ch[l] = i}) = 1
        /\ \A l \in 1..Len(nd.ch) : nd.ch[l] # NONE => nd.ch[l] \in Occ(t) /\ t.nodes[nd.ch[l]].p = i
LeafFlags(t) == \A i \in Occ(t) : t.nodes[i].leaf <=> NumChildren(t.nodes[i]) = 0
OneRoot(t) ==
    IF Occ(t) = {} THEN t.root = NONE
    ELSE t.root \in Occ(t) /\ {i \in Occ(t) : t.nodes[i].p = NONE} = {t.root}
\* acyclic + connected: every stored node reaches the root by parent links in at most |Occ| steps
RECURSIVE ReachesRoot(_, _, _)
ReachesRoot(t, i, fuel) ==
    IF i = t.root THEN TRUE
    ELSE IF fuel = 0 \/ i \notin Occ(t) \/ t.nodes[i].p = NONE THEN FALSE
    ELSE ReachesRoot(t, t.nodes[i].p, fuel - 1)
AllReachable(t) == \A i \in Occ(t) : ReachesRoot(t, i, Cardinality(Occ(t)))
LenIsReachable(t, len) == len = Cardinality(Occ(t)) /\ (Occ(t) # {} => Cardinality(Subtree(t, t.root)) = len)

StructInv(t) == LinksMirror(t) /\ LeafFlags(t) /\ OneRoot(t) /\ AllReachable(t)

\* the observable part of a state (what the public API shows): nodes, root
Obs(t) == [nodes |-> t.nodes, root |-> t.root]
=============================================================================
