SPECIFICATION Spec
CONSTANTS
  MODE = "lp"
  NP = 4
  EMIT = TRUE
VIEW View
INVARIANTS CtorOK
ACTION_CONSTRAINT Emit
CHECK_DEADLOCK FALSE
