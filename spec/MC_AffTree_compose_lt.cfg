SPECIFICATION Spec
CONSTANTS
  MODE = "compose"
  K = 2
  NF = 1
  NG = 1
  PF = "p2s"
  TF = "t22s"
  PG = "p2s"
  TG = "t22l"
  LAYOUTS = {"dfs"}
  EMIT = TRUE
VIEW View
INVARIANTS LawCompose IndicesKept ResultWellFormed
ACTION_CONSTRAINT Emit
CHECK_DEADLOCK FALSE
