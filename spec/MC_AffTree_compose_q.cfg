SPECIFICATION Spec
CONSTANTS
  MODE = "compose"
  K = 2
  NF = 2
  NG = 1
  PF = "p2s"
  TF = "t22a"
  PG = "p2a"
  TG = "t22a"
  LAYOUTS = {"dfs", "hole", "low"}
  EMIT = TRUE
VIEW View
INVARIANTS LawCompose IndicesKept ResultWellFormed
ACTION_CONSTRAINT Emit
CHECK_DEADLOCK FALSE
