SPECIFICATION Spec
CONSTANTS
  MODE = "format"
  K = 2
  NF = 2
  NG = 0
  PF = "p2s"
  TF = "tp2s"
  PG = "p2x"
  TG = "t22b"
  LAYOUTS = {"dfs"}
  EMIT = TRUE
VIEW View
INVARIANTS ResultWellFormed
ACTION_CONSTRAINT Emit
CHECK_DEADLOCK FALSE
