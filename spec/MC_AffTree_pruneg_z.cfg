SPECIFICATION Spec
CONSTANTS
  MODE = "pruneg"
  K = 2
  NF = 1
  NG = 1
  PF = "p2s"
  TF = "t22z"
  PG = "p2a"
  TG = "t22a"
  LAYOUTS = {"dfs"}
  EMIT = TRUE
VIEW View
INVARIANTS LawPrune LawCache LawEffective ResultWellFormed
ACTION_CONSTRAINT Emit
CHECK_DEADLOCK FALSE
