---------------------------- MODULE Trace_AffTree ----------------------------
(* Trace validator for family "afftree": operations on AffTree<K> recorded     *)
(* from the real crate (pre-state, right operand, post-state, result, the       *)
(* implementation's own evaluate() on a grid).  TLC evaluates the property      *)
(* formulas of C02, C03, C04, C07, C08 on the recorded states with the exact    *)
(* Fourier-Motzkin procedures of FM.tla; comparison with the L1 model's          *)
(* expected arena is reported as DRIFT only.                                     *)
EXTENDS AffTreeL1, TraceBase

VARIABLES l
vars == <<l>>

IsNone(j) == "none" \in DOMAIN j
ToT(j) ==
    LET idx == {j.nodes[n].i : n \in 1..Len(j.nodes)}
        At(i) == j.nodes[CHOOSE n \in 1..Len(j.nodes) : j.nodes[n].i = i]
    IN [root |-> j.root, dim |-> j.dim, k |-> j.k,
        nodes |-> [i \in idx |-> [p |-> At(i).p, ch |-> At(i).ch, leaf |-> At(i).leaf, m |-> At(i).m, b |-> At(i).b, q |-> At(i).q,
                                  st |-> At(i).st, w |-> At(i).w, ex |-> At(i).ex]],
        free |-> <<>>, slen |-> 1000000]
AllExact(j) == \A n \in 1..Len(j.nodes) : j.nodes[n].ex

\* structural sanity of a recorded tree: needed before the denotation can be computed at all
Sane(t) ==
    /\ t.root \in Occ(t)
    /\ \A i \in Occ(t) : /\ \A s \in 1..Len(t.nodes[i].ch) : t.nodes[i].ch[s] # NONE => t.nodes[i].ch[s] \in Occ(t) /\ t.nodes[t.nodes[i].ch[s]].p = i
                         /\ Len(t.nodes[i].m) = Len(t.nodes[i].b)
                         /\ \A r \in 1..Len(t.nodes[i].m) : Len(t.nodes[i].m[r]) = t.dim
    /\ \A i \in Occ(t) : ~t.nodes[i].leaf => Len(t.nodes[i].m) >= 1 /\ Pow2(Len(t.nodes[i].m)) <= t.k
WellFormed(t) == Sane(t) /\ NodeDimsOK(t) /\ DecisionRowsOK(t) /\ LeafIffNoChildren(t) /\ Cardinality(OutDims(t)) <= 1

P0(t) == Strip(Pieces(t))

\* ------------------------------------------------------------------ grid: the implementation's evaluate() against the denotation
\* recorded value gv = [x, d, v] with v scaled by sv; expected function given as spec evaluation
GridPoint(gv) == gv.x
\* expected result of evaluating tree t at xs/den:  [def, v (scaled by s), s]
EvalSpec(t, xs, den) ==
    LET ft == FindTerminal(t, t.root, xs, den, <<>>) IN
    IF ~ft.def THEN [def |-> FALSE, v |-> <<>>, s |-> 1]
    ELSE LET nd == t.nodes[ft.node] IN [def |-> TRUE, v |-> ApplyOut(Out(nd.m, nd.b, nd.q), xs, den), s |-> nd.q * den]
SameVal(gv, sv, ex) ==      \* recorded (gv.v scaled sv) equals expected (ex.v scaled ex.s)
    IF gv.d = 0 THEN ~ex.def
    ELSE IF gv.d = 2 THEN FALSE
    ELSE ex.def /\ Len(gv.v) = Len(ex.v) /\ \A r \in 1..Len(gv.v) : gv.v[r] * ex.s = ex.v[r] * sv
\* evaluate g at the rational point y = ev.v/ev.s
EvalAfter(g, ev) == IF ~ev.def THEN ev ELSE EvalSpec(g, ev.v, ev.s)
\* coefficient-wise lifted value is not a function of the values alone (mul/div act on coefficients): evaluate the lifted terminal
LiftEval(op, a, b, xs, den) ==
    LET fa == FindTerminal(a, a.root, xs, den, <<>>)
        fb == FindTerminal(b, b.root, xs, den, <<>>)
    IN IF ~fa.def \/ ~fb.def THEN [def |-> FALSE, v |-> <<>>, s |-> 1]
       ELSE LET o == CoeffWise(op, Out(a.nodes[fa.node].m, a.nodes[fa.node].b, a.nodes[fa.node].q),
                                   Out(b.nodes[fb.node].m, b.nodes[fb.node].b, b.nodes[fb.node].q))
            IN [def |-> TRUE, v |-> ApplyOut(o, xs, den), s |-> o.q * den]

GridAgrees(e, post, Expected(_)) ==
    IsNone(e.grid) \/ \A n \in 1..Len(e.grid.vals) :
        LET gv == e.grid.vals[n] IN ~gv.ex \/ SameVal(gv, post.nodes[post.root].q * e.grid.den, Expected(gv.x))

\* ------------------------------------------------------------------ drift against the L1 model
DriftCheck(e) ==
    IsNone(e.exp) \/ IsNone(e.post) \/
    Require(e.exp.root = e.post.root /\ Len(e.exp.nodes) = Len(e.post.nodes) /\
            \A n \in 1..Len(e.exp.nodes) :
                LET x == e.exp.nodes[n]  y == e.post.nodes[n]
                IN x.i = y.i /\ x.p = y.p /\ x.ch = y.ch /\ x.leaf = y.leaf /\ MScale(y.q, x.m) = MScale(x.q, y.m) /\ Scale(y.q, x.b) = Scale(x.q, y.b),
            Drift(e, "post-state arena differs from the L1 model for " \o e.op))

\* ------------------------------------------------------------------ per-operation checks
V(prop, e, cond, what, sg) == Require(cond, Verdict(prop, e, what, e.op \o "/" \o sg))

Shape(t) == IF \A i \in Occ(t) : ~t.nodes[i].leaf => \A lab \in ReachableLabels(t.nodes[i], t.k) : t.nodes[i].ch[lab + 1] # NONE
            THEN "total" ELSE "partial"

CheckCompose(e) ==
    LET f == ToT(e.pre)  g == ToT(e.rhs)  h == ToT(e.post)  d == f.dim
        unpruned == e.op = "compose"
    IN
    /\ V("C04", e, Sane(h) /\ WellFormed(h), "composition result is not well-formed", "wf")
    /\ IF ~Sane(h) THEN V("C02", e, ~unpruned, "composition result is structurally broken", "law/" \o Shape(f) \o "-" \o Shape(g))
       ELSE
       /\ V(IF unpruned THEN "C02" ELSE "C03", e,
            IF unpruned THEN PwlEq(P0(h), ComposePieces(P0(f), P0(g)), d) ELSE PwlEqUpToThin(P0(h), ComposePieces(P0(f), P0(g)), d),
            "h = f.compose(g) differs from g after f (value or definedness) on a non-empty region", "law/" \o Shape(f) \o "-" \o Shape(g))
       /\ V("C02", e, ~unpruned \/ GridAgrees(e, h, LAMBDA xs : EvalAfter(g, EvalSpec(f, xs, e.grid.den))),
            "evaluate() of the composed tree differs from g(f(x)) on a grid point", "grid/" \o Shape(f) \o "-" \o Shape(g))
       /\ V("C02", e, ~unpruned \/ \A i \in Occ(f) :
               /\ i \in Occ(h) /\ h.nodes[i].p = f.nodes[i].p
               /\ (f.nodes[i].p # NONE => \E s \in 1..f.k : f.nodes[f.nodes[i].p].ch[s] = i /\ h.nodes[f.nodes[i].p].ch[s] = i)
               /\ (~f.nodes[i].leaf => ~h.nodes[i].leaf /\ MScale(h.nodes[i].q, f.nodes[i].m) = MScale(f.nodes[i].q, h.nodes[i].m)
                                                        /\ Scale(h.nodes[i].q, f.nodes[i].b) = Scale(f.nodes[i].q, h.nodes[i].b)),
            "a node of the left operand lost its index, parent, label or predicate", "indices")
    /\ V("C02", e, e.rhs_after = e.rhs, "the right operand was modified by compose", "rhs")

ArithOp(e) == IF e.op \in {"add_aff", "sub_aff", "mul_aff", "div_aff"} THEN SubSeq(e.op, 1, 3) ELSE e.op

CheckArith(e) ==
    LET a == ToT(e.pre)  b == ToT(e.rhs)  h == ToT(e.post)  d == a.dim  op == e.op IN
    /\ V("C04", e, Sane(h) /\ WellFormed(h), "arithmetic result is not well-formed", "wf/" \o Shape(a) \o "-" \o Shape(b))
    /\ IF ~Sane(h) THEN V("C07", e, FALSE, "arithmetic result is structurally broken", "law/" \o e.variant)
       ELSE LET ok == PwlEqUpToThin(P0(h), LiftPieces(op, P0(a), P0(b)), d)
                gridok == ~PwlEq(P0(h), LiftPieces(op, P0(a), P0(b)), d) \/ GridAgrees(e, h, LAMBDA xs : LiftEval(op, a, b, xs, e.grid.den))
            IN /\ V("C07", e, ok, "a op b differs from the point-wise lifting (value or definedness) on a region with non-empty interior", "law/" \o e.variant \o "/" \o Shape(a) \o "-" \o Shape(b))
               /\ V("C03", e, ok, "on-the-fly pruning of a op b changed the function on a region with non-empty interior", "law/" \o Shape(a) \o "-" \o Shape(b))
               /\ V("C07", e, gridok, "evaluate() of a op b differs from the lifted terminal at a grid point", "grid/" \o e.variant \o "/" \o Shape(a) \o "-" \o Shape(b))
    /\ V("C07", e, e.rhs_after = e.rhs, "the right operand was modified", "rhs")
    /\ V("C07", e, "others" \notin DOMAIN e \/ (e.others.rr = e.post /\ e.others.oo = e.post /\ e.others.ro = e.post),
         "the ownership variants (&a op &b, a op b, &a op b) do not all give the tree of a op &b", "variants")

\* tree (op) affine / affine (op) tree; variant ta, tra: tree op aff ; at, rat: aff op tree
CheckArithAff(e) ==
    LET a == ToT(e.pre)  h == ToT(e.post)  d == a.dim  op == ArithOp(e)
        fa == e.aff
        AffPiece == {[cons |-> {}, out |-> Out(fa.m, fa.b, fa.q)]}
        treeFirst == e.variant \in {"ta", "tra", ""}
        expected == IF treeFirst THEN LiftPieces(op, P0(a), AffPiece) ELSE LiftPieces(op, AffPiece, P0(a))
    IN /\ V("C04", e, Sane(h) /\ WellFormed(h), "tree/affine arithmetic result is not well-formed", "wf")
       /\ V("C07", e, Sane(h) /\ PwlEq(P0(h), expected, d), "tree (op) affine differs from the point-wise lifting (operand order?)", "law/" \o e.variant)

CheckNeg(e) ==
    LET a == ToT(e.pre)  h == ToT(e.post) IN
    V("C07", e, Sane(h) /\ PwlEq(P0(h), {[cons |-> p.cons, out |-> NegOut(p.out)] : p \in P0(a)}, a.dim), "-a differs from the point-wise negation", "law")

CheckApplyFunc(e) ==
    LET f == ToT(e.pre)  h == ToT(e.post)  fa == e.aff
        G == {[cons |-> {}, out |-> Out(fa.m, fa.b, fa.q)]}
    IN /\ V("C04", e, Sane(h) /\ WellFormed(h), "apply_func result is not well-formed", "wf")
       /\ V("C02", e, Sane(h) /\ PwlEq(P0(h), ComposePieces(P0(f), G), f.dim), "apply_func(a) differs from a after f", "law")
       /\ V("C02", e, Sane(h) /\ \A i \in Occ(f) : i \in Occ(h) /\ h.nodes[i].p = f.nodes[i].p /\ h.nodes[i].ch = f.nodes[i].ch, "apply_func changed the tree structure", "indices")

RECURSIVE UniformTotal(_, _, _)
\* every terminal below n carries aff and every decision below n has both children
UniformTotal(t, n, aff) ==
    IF t.nodes[n].leaf THEN AffOf(t.nodes[n]) = aff
    ELSE \A s \in 1..2 : t.nodes[n].ch[s] # NONE /\ UniformTotal(t, t.nodes[n].ch[s], aff)
RECURSIVE FirstLeaf(_, _)
FirstLeaf(t, n) == IF t.nodes[n].leaf THEN n ELSE FirstLeaf(t, CHOOSE c \in {t.nodes[n].ch[s] : s \in 1..Len(t.nodes[n].ch)} \ {NONE} : TRUE)

CheckReduce(e) ==
    LET f == ToT(e.pre)  h == ToT(e.post)  d == f.dim IN
    /\ V("C04", e, Sane(h) /\ WellFormed(h), "reduce result is not well-formed", "wf")
    /\ IF ~Sane(h) THEN V("C08", e, FALSE, "reduce result is structurally broken", "law")
       ELSE
       /\ V("C08", e, PwlEq(P0(h), P0(f), d), "reduce changed the value or definedness of the tree", "law/" \o Shape(f))
       /\ V("C08", e, GridAgrees(e, h, LAMBDA xs : EvalSpec(f, xs, e.grid.den)), "evaluate() after reduce differs at a grid point", "grid")
       /\ V("C08", e, Cardinality(Occ(h)) <= Cardinality(Occ(f)), "reduce increased the number of nodes", "size")
       /\ V("C08", e, "post2" \notin DOMAIN e \/ e.post2 = e.post, "reduce is not idempotent", "idem")
       /\ V("C08", e, \A i \in Occ(h) \ {h.root} :
                ~(~h.nodes[i].leaf /\ h.nodes[i].ch[1] # NONE /\ h.nodes[i].ch[2] # NONE
                  /\ h.nodes[h.nodes[i].ch[1]].leaf /\ h.nodes[h.nodes[i].ch[2]].leaf
                  /\ AffOf(h.nodes[h.nodes[i].ch[1]]) = AffOf(h.nodes[h.nodes[i].ch[2]])),
            "a decision below the root still has two identical terminal children", "left")
       /\ V("C08", e, \A i \in Occ(f) \ Occ(h) : f.nodes[i].leaf \/ UniformTotal(f, i, AffOf(f.nodes[FirstLeaf(f, i)])),
            "a decision whose children differ (or with a missing child) was removed", "kept")
       /\ V("C08", e, \A i \in Occ(h) : i \in Occ(f) /\ AffOf(h.nodes[i]) = AffOf(f.nodes[i]), "a surviving node changed index or function", "surv")

Inexact(e) == (~IsNone(e.post) /\ ~AllExact(e.post)) \/ ~AllExact(e.pre) \/ (~IsNone(e.rhs) /\ ~AllExact(e.rhs))


\* ------------------------------------------------------------------ caches (C05) on recorded states; witnesses are logged at scale WQ
WQ == 100000
SumAbs(v) == LET RECURSIVE G(_) G(n) == IF n = 0 THEN 0 ELSE Abs(v[n]) + G(n - 1) IN G(Len(v))
\* a.w <= b within the fixed-point budget (rounding of w: 0.5 per coordinate; library tolerance 1e-8)
SatTol(c, ws, q) == Dot(c.a, ws) <= c.b * WQ + SumAbs(c.a) + q
WitnessOK(t, i) ==
    \A j \in 1..Len(t.nodes[i].w) :
        LET wj == t.nodes[i].w[j] IN ~wj.ok \/ \A c \in ClosedRegion(t, i) : SatTol(c, wj.p, t.nodes[i].q)
CacheSound(t) ==
    \A i \in Occ(t) \ {t.root} :
        /\ t.nodes[i].st = "W" => WitnessOK(t, i)
        /\ t.nodes[i].st = "X" => ~HasInterior(ClosedRegion(t, i), t.dim)
BadCacheKind(t) ==
    IF \E i \in Occ(t) \ {t.root} : t.nodes[i].st = "X" /\ HasInterior(ClosedRegion(t, i), t.dim) THEN "infeasible-mark" ELSE "witness"

TotalTree(t) == \A i \in Occ(t) : ~t.nodes[i].leaf => \A sl \in 1..t.k : t.nodes[i].ch[sl] # NONE
RECURSIVE SubtreeOf(_, _)
SubtreeOf(t, i) == {i} \cup UNION {SubtreeOf(t, t.nodes[i].ch[sl]) : sl \in {x \in 1..Len(t.nodes[i].ch) : t.nodes[i].ch[x] # NONE}}
RECURSIVE ThinAnc(_, _)
\* i or one of its ancestors has a closed path region with empty interior
ThinAnc(t, i) == ~HasInterior(ClosedRegion(t, i), t.dim) \/ (t.nodes[i].p # NONE /\ ThinAnc(t, t.nodes[i].p))

\* in-situ LP answers (C10): every LP the library asked during this step, with the solver's real answer
PolyOf(c) == {Le(c.m[r], c.b[r]) : r \in 1..Len(c.m)}
LpOK(c) ==
    LET Pc == PolyOf(c) IN
    ~c.ex \/ (/\ c.real.st = "I" => ~HasInterior(Pc, c.n)
              /\ HasInterior(Pc, c.n) => c.real.st # "I"
              /\ (c.real.st = "O" /\ c.real.w.ok) => \A k \in Pc : SatTol(k, c.real.w.p, c.q))
CheckLp(e) ==
    "lp" \notin DOMAIN e \/ \A n \in 1..Len(e.lp) :
        Require(LpOK(e.lp[n]), Verdict("C10", e, "LP answer during " \o e.op \o ": infeasible verdict on a polytope with interior, feasible polytope reported infeasible, or witness outside the polytope",
                                        "insitu/" \o e.lp[n].real.st))

CheckEliminate(e) ==
    LET f == ToT(e.pre)  h == ToT(e.post)  d == f.dim
        total == TotalTree(f)
        sh == IF total THEN "total" ELSE "partial"
        removed == Occ(f) \ Occ(h)
        \* a child "survives" if some node of its subtree is still in the result (the child itself may have been forwarded too)
        Survives(c) == SubtreeOf(f, c) \cap Occ(h) # {}
        Forwarded(i) == ~f.nodes[i].leaf /\ (\A sl \in 1..f.k : f.nodes[i].ch[sl] # NONE /\ (Survives(f.nodes[i].ch[sl]) \/ ThinAnc(f, f.nodes[i].ch[sl])))
                        /\ Cardinality({sl \in 1..f.k : Survives(f.nodes[i].ch[sl])}) = 1
    IN
    /\ V("C03", e, PwlEqUpToThin(P0(h), P0(f), d), "infeasible_elimination changed the value or definedness on a region with non-empty interior", "law/" \o sh)
    /\ V("C03", e, \A i \in removed : ThinAnc(f, i) \/ Forwarded(i),
         "a removed node lies on a path with non-empty interior, or a decision was skipped although another branch can be taken", "removed/" \o sh)
    /\ V("C03", e, \A i \in Occ(h) : i \in Occ(f) /\ AffOf(h.nodes[i]) = AffOf(f.nodes[i]), "a surviving node changed index or function", "surv")
    /\ V("C06", e, ~total \/ e.faulty \/ \A i \in Occ(h) \ {h.root} : Feas(ClosedRegion(h, i), d),
         "a node with an empty path region is left after infeasible_elimination on a total tree", "empty-left")
    /\ V("C06", e, ~total \/ e.faulty \/ \A i \in Occ(h) \ {h.root} : ~h.nodes[i].leaf => NumChildren(h.nodes[i]) # 1,
         "a decision below the root is left with a single branch after infeasible_elimination on a total tree", "single-branch")
    /\ Require(IsNone(e.perf) \/ "lps" \notin DOMAIN e.perf \/ (e.perf.lps = Len(e.lp) /\ e.perf.lpf + e.perf.lpi + e.perf.lpe <= e.perf.lps /\ e.perf.nodes_checked + e.perf.skipped >= Cardinality(Occ(h))),
               Drift(e, "PerformanceCounter disagrees with the LP tap (lps_solved) or with the number of visited nodes"))
    /\ V("C06", e, ~total \/ e.faulty \/ IsNone(e.second) \/
            (e.second.res = "ok" /\ ObsTree(ToT(e.second.post)) = ObsTree(h)),
         "running infeasible_elimination again changed the tree", "idem")

\* C11: the step ran with injected LP faults
CheckFaulty(e) ==
    LET f == ToT(e.pre)  h == ToT(e.post)  d == f.dim
        expected == IF e.op = "eliminate" THEN P0(f) ELSE ComposePieces(P0(f), P0(ToT(e.rhs)))
        kinds == {e.lp[n].fault : n \in 1..Len(e.lp)} \ {""}
        kd == IF kinds = {} THEN "none" ELSE CHOOSE x \in kinds : TRUE
    IN
    /\ V("C11", e, Sane(h) /\ WellFormed(h), "tree not well-formed after pruning under LP faults", "wf/" \o kd)
    /\ V("C11", e, ~Sane(h) \/ PwlEqUpToThin(P0(h), expected, d), "pruning under LP faults changed the represented function", "law/" \o kd)
    /\ V("C11", e, ~Sane(h) \/ CacheSound(h), "an unsound witness or infeasible verdict was cached under LP faults", "cache/" \o kd)
    \* only less pruning: a node that the fault-free run keeps may be missing only if no input can take it (path without interior)
    /\ V("C11", e, IsNone(e.nofault) \/ e.nofault.res # "ok" \/ ~Sane(h) \/ e.op # "eliminate" \/
            \A i \in (Occ(ToT(e.nofault.post)) \cap Occ(f)) \ Occ(h) : ThinAnc(f, i),
         "a node kept by the fault-free run and reachable by inputs was removed under LP faults (more pruning instead of less)", "more-pruning/" \o kd)

\* replace_node(i, a): inputs routed through i get a(x), all others are unchanged; the node is a terminal afterwards
CheckReplace(e) ==
    LET f == ToT(e.pre)  h == ToT(e.post)  i == e.perf.target  a == e.aff
        expected == {p \in P0(f) : ~Subset(p.cons, RouteRegion(f, i), f.dim)} \cup {[cons |-> RouteRegion(f, i), out |-> Out(a.m, a.b, a.q)]}
    IN /\ V("C04", e, Sane(h) /\ e.perf.new \in Occ(h) /\ h.nodes[e.perf.new].leaf, "replace_node did not leave a terminal at the returned index", "law")
       /\ V("C04", e, ~Sane(h) \/ PwlEq(P0(h), expected, f.dim), "replace_node changed the function outside the replaced node's region (or not inside it)", "function")

\* remove_axes(mask): the masked coordinates are dropped from every node, i.e. the tree is restricted to the slice where they are 0
CheckRemoveAxes(e) ==
    LET f == ToT(e.pre)  h == ToT(e.post)  kd == Len(KeepIdx(e.mask)) IN
    /\ V("C17", e, Sane(h) /\ h.dim = kd, "remove_axes: malformed result or wrong input dimension", "shape")
    /\ V("C17", e, ~Sane(h) \/ h.dim # kd \/ PwlEq(P0(h), SlicePieces(P0(f), e.mask, [i \in 1..Len(e.mask) |-> 0]), kd),
         "remove_axes is not the restriction of the tree to the slice at 0 of the removed coordinates", "law")
    /\ V("C05", e, ~Sane(h) \/ \A i \in Occ(h) : h.nodes[i].st = "I", "remove_axes kept a cached feasibility state although the input space changed", "reset")

\* every step of a history: well-formedness and cache soundness are preserved (C04, C05), LP answers are right (C10)
CheckHistoryStep(e) ==
    LET f == ToT(e.pre)  h == ToT(e.post) IN
    /\ V("C04", e, ~(Sane(f) /\ WellFormed(f)) \/ (Sane(h) /\ WellFormed(h)), "the tree is no longer well-formed after " \o e.op, "history-wf")
    /\ V("C05", e, ~Sane(h) \/ ~Sane(f) \/ ~CacheSound(f) \/ CacheSound(h),
         "a cached witness violates its path conditions or a node with non-empty interior is marked infeasible after " \o e.op, "cache/" \o BadCacheKind(h))
    \* the state helpers of node.rs answer what the stored state says
    /\ V("C05", e, \A n \in 1..Len(e.post.nodes) : LET nd == e.post.nodes[n] IN "hf" \notin DOMAIN nd \/
            (/\ (nd.hf[1] = 1) = (nd.st \in {"F", "W"}) /\ (nd.hf[2] = 1) = (nd.st = "X") /\ (nd.hf[3] = 1) = (nd.st = "I")
             /\ nd.hf[4] = (IF nd.st = "W" THEN Len(nd.w) ELSE 0) /\ nd.hf[5] = 1),
         "is_feasible / is_infeasible / is_indetermined / feasible_witnesses / to_poly disagree with the stored node state", "state-helpers")
    /\ CheckLp(e)

CheckEvent(e) ==
    IF e.res # "panic" /\ Inexact(e) THEN Note("INEXACT", e, "values not representable at the trace scale: exact comparison skipped for " \o e.op)
    ELSE IF e.mode = "history" /\ ~(Sane(ToT(e.pre)) /\ WellFormed(ToT(e.pre)))
    THEN Note("CASCADE", e, "pre-state already ill-formed (reported at the step that caused it): step skipped")
    ELSE IF e.res = "panic" /\ "faulty" \in DOMAIN e /\ e.faulty
    THEN Verdict("C11", e, "operation panicked under injected LP faults: " \o e.op, e.op \o "/panic")
    ELSE IF e.res = "panic"
    THEN /\ Verdict("C04", e, "operation panicked on dimension-compatible, well-formed operands: " \o e.op, e.op \o "/panic")
         /\ Verdict(CASE e.op \in {"compose", "apply_func"} -> "C02" [] e.op \in {"compose_prune", "eliminate"} -> "C03" [] e.op = "reduce" -> "C08" [] e.op = "remove_axes" -> "C17" [] OTHER -> "C07",
                    e, "operation panicked: " \o e.op, e.op \o "/panic")
    ELSE /\ CASE e.op \in {"compose", "compose_prune"} -> CheckCompose(e)
              [] e.op \in {"add", "sub", "mul", "div"} -> CheckArith(e)
              [] e.op \in {"add_aff", "sub_aff", "mul_aff", "div_aff"} -> CheckArithAff(e)
              [] e.op = "neg" -> CheckNeg(e)
              [] e.op = "apply_func" -> CheckApplyFunc(e)
              [] e.op = "reduce" -> CheckReduce(e)
              [] e.op = "eliminate" -> CheckEliminate(e)
              [] e.op = "replace_node" -> CheckReplace(e)
              [] e.op = "remove_axes" -> CheckRemoveAxes(e)
         /\ (e.mode # "history" \/ CheckHistoryStep(e))
         /\ (~("faulty" \in DOMAIN e /\ e.faulty) \/ CheckFaulty(e))
         /\ DriftCheck(e)

Init == l = 1
Next == l <= Len(Rec) /\ (CheckEvent(Rec[l]) = TRUE) /\ l' = l + 1     \* "= TRUE": evaluated as an expression (short-circuit), not split as an action
Spec == Init /\ [][Next]_vars
Done == Require(TLCGet("stats").diameter = Len(Rec) + 1, PrintT("INCOMPLETE")) /\ PrintT("DONE " \o ToString(Len(Rec)))
=============================================================================
