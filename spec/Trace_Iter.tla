----------------------------- MODULE Trace_Iter -----------------------------
(* Trace validator for families "iter" and "metrics" (property C13).          *)
(* An "iter" event is one complete cursor run recorded from the real crate:    *)
(* the arena, the cursor kind, the start node, the schedule of next/skip calls *)
(* and, per call, the returned item and size_hint.  The spec cursor of          *)
(* Traversal.tla is stepped along the same schedule; TLC compares every item    *)
(* and evaluates the size_hint bracket against the number of items a plain      *)
(* next() loop would still yield.                                              *)
EXTENDS Traversal, TraceBase

VARIABLES l
vars == <<l>>

ToTree(j) ==
    LET idx == {j.nodes[n].i : n \in 1..Len(j.nodes)}
        At(i) == j.nodes[CHOOSE n \in 1..Len(j.nodes) : j.nodes[n].i = i]
    IN [nodes |-> [i \in idx |-> [v |-> At(i).v, p |-> At(i).p, ch |-> At(i).ch, leaf |-> At(i).leaf]],
        root |-> j.root, free |-> <<>>, slen |-> 1000000]

Where(e) == IF e.start = e.tree.root THEN "root" ELSE "sub"
Sig(e, cat, j) ==
    LET steps == e.run.steps
        prev == IF j > 1 THEN steps[j - 1].call ELSE "-"
        call == IF j >= 1 /\ j <= Len(steps) THEN steps[j].call ELSE "new"
    IN e.kind \o "/" \o cat \o "/" \o Where(e) \o "/" \o prev \o call

LbOK(h, rem) == h[1] <= rem
UbOK(h, rem) == h[2] = -1 \/ rem <= h[2]

RECURSIVE Walk(_, _, _, _)
Walk(e, t, c, j) ==
    LET steps == e.run.steps IN
    IF j > Len(steps) THEN TRUE
    ELSE LET s == steps[j] IN
      IF s.res = "panic" THEN Verdict("C13", e, "traversal call panicked: " \o s.call, Sig(e, "panic", j))
      ELSE LET c2 == IF s.call = "n" THEN NextStep(t, c).c ELSE SkipStep(c)
               it == IF s.call = "n" THEN NextStep(t, c).item ELSE NoItem
               rem == Remaining(t, c2)
           IN IF s.call = "n" /\ it # s.item
              THEN Verdict("C13", e, "traversal item differs from the reference traversal (order, depth, sibling counter or skipped subtree)",
                           Sig(e, IF (~it.none /\ ~s.item.none /\ e.kind # "edge" /\ it.idx = s.item.idx /\ it.depth = s.item.depth) THEN "item-rem" ELSE "item", j))
              ELSE /\ Require(LbOK(s.hint, rem), Verdict("C13", e, "size_hint lower bound exceeds the number of items still to come", Sig(e, "hint-lb", j)))
                   /\ Require(UbOK(s.hint, rem), Verdict("C13", e, "size_hint upper bound is below the number of items still to come", Sig(e, "hint-ub", j)))
                   /\ Walk(e, t, c2, j + 1)

CheckIter(e) ==
    LET t == ToTree(e.tree) IN
    IF e.run.new = "panic" THEN Verdict("C13", e, "cursor construction panicked", Sig(e, "panic", 0))
    ELSE LET c == NewCursor(e.kind, t, e.start)
             rem == Remaining(t, c)
         IN /\ Require(LbOK(e.run.hint0, rem), Verdict("C13", e, "initial size_hint lower bound exceeds the number of items", Sig(e, "hint-lb", 0)))
            /\ Require(UbOK(e.run.hint0, rem), Verdict("C13", e, "initial size_hint upper bound below the number of items", Sig(e, "hint-ub", 0)))
            /\ Walk(e, t, c, 1)

\* ------------------------------------------------------------------ metrics
PairsOf(S, t) == LET s == SortedSeq(S) IN [j \in 1..Len(s) |-> <<s[j], t.nodes[s[j]].v>>]
SumDepth(t, S) == LET RECURSIVE G(_) G(R) == IF R = {} THEN 0 ELSE LET x == CHOOSE y \in R : TRUE IN DepthOf(t, x) + G(R \ {x}) IN G(S)
SumDepth2(t, S) == LET RECURSIVE G(_) G(R) == IF R = {} THEN 0 ELSE LET x == CHOOSE y \in R : TRUE IN DepthOf(t, x) * DepthOf(t, x) + G(R \ {x}) IN G(S)

CheckMetrics(e) ==
    LET t == ToTree(e.tree)
        T == Terminals(t)
        n == Cardinality(T)
        M(cond, what, sg) == Require(cond, Verdict("C13", e, what, "metrics/" \o sg))
    IN
    /\ M(e.node_indices = SortedSeq(Occ(t)), "node_indices differs from the stored nodes in index order", "node_indices")
    /\ M(e.terminal_indices = SortedSeq(T), "terminal_indices differs", "terminal_indices")
    /\ M(e.decision_indices = SortedSeq(Decisions(t)), "decision_indices differs", "decision_indices")
    /\ M(e.nodes = PairsOf(Occ(t), t), "nodes() differs", "nodes")
    /\ M(e.terminals = PairsOf(T, t), "terminals() differs", "terminals")
    /\ M(e.decisions = PairsOf(Decisions(t), t), "decisions() differs", "decisions")
    /\ M(Len(e.edges) = Cardinality(Occ(t)) - 1 /\
         SeqToSet(e.edges) = {<<t.nodes[i].p, (CHOOSE s \in 1..e.k : t.nodes[t.nodes[i].p].ch[s] = i) - 1, i>> : i \in {x \in Occ(t) : t.nodes[x].p # NONE}},
         "edge_iter does not list every edge exactly once", "edge_iter")
    /\ M(e.dfs_edges = [j \in 1..Len(RefEdges(t, t.root, {})) |->
                          LET r == RefEdges(t, t.root, {})[j] IN <<r.src, r.label, r.dest>>],
         "dfs_edge_iter differs from the reference edge traversal", "dfs_edge_iter")
    /\ M("dfs_nodes" \notin DOMAIN e \/ e.dfs_nodes = [j \in 1..Len(RefDfs(t, t.root, 0, 0, {})) |-> LET r == RefDfs(t, t.root, 0, 0, {})[j] IN <<r.depth, r.idx, r.rem>>],
         "dfs_iter differs from the reference pre-order traversal", "dfs_iter")
    /\ M("bfs_wrap" \notin DOMAIN e \/ e.bfs_wrap = [j \in 1..Len(RefBfs(t, t.root, {})) |-> LET r == RefBfs(t, t.root, {})[j] IN <<r.depth, r.idx, r.rem>>],
         "TraversalIter over Bfs differs from the reference level-order traversal", "bfs_wrap")
    /\ M("node_indices_rev" \notin DOMAIN e \/ (/\ e.node_indices_rev = Reverse(SortedSeq(Occ(t))) /\ e.terminal_indices_rev = Reverse(SortedSeq(T))
                                                /\ e.decision_indices_rev = Reverse(SortedSeq(Decisions(t))) /\ e.edges_rev = Reverse(e.edges)),
         "a reversed index-order iterator is not the reverse of the forward one", "rev")
    /\ M("terminals_mut" \notin DOMAIN e \/ e.terminals_mut = PairsOf(T, t), "terminals_mut() differs", "terminals_mut")
    /\ M(e.num_terminals = n, "num_terminals differs", "num_terminals")
    /\ M(e.len = Cardinality(Occ(t)), "len differs from the number of stored nodes", "len")
    /\ M(e.depth = TreeDepth(t), "depth differs from the longest root path", "depth")
    /\ M(\A j \in 1..Len(e.num_nodes) : e.num_nodes[j][2] = SubtreeSize(t, e.num_nodes[j][1]), "num_nodes differs from the subtree size", "num_nodes")
    /\ M(\A j \in 1..Len(e.paths) : e.paths[j].res = "ok" /\ e.paths[j].path = PathTo(t, e.paths[j].i), "path_to_node differs", "path_to_node")
    /\ M(n = 0 \/ (e.stats.min = (CHOOSE d \in {DepthOf(t, i) : i \in T} : \A i \in T : d <= DepthOf(t, i))
                   /\ e.stats.max = (CHOOSE d \in {DepthOf(t, i) : i \in T} : \A i \in T : d >= DepthOf(t, i))),
         "depth_stats min/max differ", "depth_stats_minmax")
    /\ M(n = 0 \/ ~e.stats.exact \/ e.stats.mean_n = SumDepth(t, T), "depth_stats mean differs", "depth_stats_mean")
    /\ M(n < 2 \/ ~e.stats.exact \/ e.stats.var_nn1 = n * SumDepth2(t, T) - SumDepth(t, T) * SumDepth(t, T), "depth_stats variance differs", "depth_stats_var")

CheckEvent(e) == IF e.fam = "metrics" THEN CheckMetrics(e) ELSE CheckIter(e)

Init == l = 1
Next == l <= Len(Rec) /\ (CheckEvent(Rec[l]) = TRUE) /\ l' = l + 1     \* "= TRUE": evaluated as an expression (short-circuit), not split as an action
Spec == Init /\ [][Next]_vars
Done == Require(TLCGet("stats").diameter = Len(Rec) + 1, PrintT("INCOMPLETE")) /\ PrintT("DONE " \o ToString(Len(Rec)))
=============================================================================
