SPECIFICATION Spec
CONSTANTS
  MODE = "compose"
  K = 2
  NF = 1
  NG = 1
  PF = "p3s"
  TF = "t33s"
  PG = "p3s"
  TG = "t33s"
  LAYOUTS = {"dfs"}
  EMIT = TRUE
VIEW View
INVARIANTS LawCompose IndicesKept ResultWellFormed
ACTION_CONSTRAINT Emit
CHECK_DEADLOCK FALSE
