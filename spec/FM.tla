-------------------------------- MODULE FM --------------------------------
(* Exact decision procedures over the reals for systems of linear            *)
(* inequalities with integer coefficients, by Fourier-Motzkin elimination.   *)
(* A constraint is [a : Seq(Int), b : Int, s : BOOLEAN] and means            *)
(*      a.x <= b  (s = FALSE)      or      a.x < b  (s = TRUE).              *)
(* Strictness is carried through the elimination, so closed/open boundary    *)
(* conventions are decided, not sampled.                                     *)
EXTENDS Vec

Con(a, b, s) == [a |-> a, b |-> b, s |-> s]
Le(a, b) == Con(a, b, FALSE)
Lt(a, b) == Con(a, b, TRUE)

Norm(c) ==
    LET g == Gcd(GcdSeq(c.a, Len(c.a)), Abs(c.b))
    IN IF g <= 1 THEN c
       ELSE [a |-> [i \in 1..Len(c.a) |-> c.a[i] \div g], b |-> c.b \div g, s |-> c.s]

\* a zero-row constraint 0 <= b / 0 < b that is false
Absurd(c) == IsZero(c.a) /\ (IF c.s THEN c.b <= 0 ELSE c.b < 0)
Trivial(c) == IsZero(c.a) /\ ~Absurd(c)

\* keep, among constraints with the same left-hand side, only the tightest
Tighten(C) ==
    {c \in C : ~Trivial(c) /\
               ~\E e \in C : e.a = c.a /\ (e.b < c.b \/ (e.b = c.b /\ e.s /\ ~c.s))}

DropAt(v, k) == [i \in 1..Len(v) - 1 |-> IF i < k THEN v[i] ELSE v[i + 1]]

\* eliminate variable k (existential projection)
ElimVar(C, k) ==
    LET pos == {c \in C : c.a[k] > 0}
        neg == {c \in C : c.a[k] < 0}
        zer == {c \in C : c.a[k] = 0}
        Comb(p, n) ==
            Norm([a |-> DropAt([i \in 1..Len(p.a) |-> (-n.a[k]) * p.a[i] + p.a[k] * n.a[i]], k),
                  b |-> (-n.a[k]) * p.b + p.a[k] * n.b,
                  s |-> p.s \/ n.s])
    IN Tighten({[a |-> DropAt(c.a, k), b |-> c.b, s |-> c.s] : c \in zer}
               \cup {Comb(p, n) : p \in pos, n \in neg})

RECURSIVE FeasN(_, _)
FeasN(C, k) ==
    IF \E c \in C : Absurd(c) THEN FALSE
    ELSE IF k = 0 THEN TRUE
    ELSE FeasN(ElimVar(C, k), k - 1)

\* Is {x in R^d | all constraints of C} non-empty?
Feas(C, d) == FeasN(Tighten({Norm(c) : c \in C}) \cup {c \in C : Absurd(c)}, d)

Closed(C) == {[c EXCEPT !.s = FALSE] : c \in C}
Strict(C) == {[c EXCEPT !.s = TRUE] : c \in C}
Not(c) == [a |-> Neg(c.a), b |-> -c.b, s |-> ~c.s]        \* complement half-space

\* the interior of the closed polyhedron (all rows strict) is non-empty.
\* Zero rows 0 <= b with b > 0 stay true, 0 <= 0 becomes 0 < 0: a polyhedron with
\* such a row is treated as having an empty interior only if b < 0; a 0 <= 0 row is dropped.
HasInterior(C, d) == Feas(Strict({c \in C : ~(IsZero(c.a) /\ c.b = 0)}), d)

Subset(P, Q, d) == \A q \in Q : ~Feas(P \cup {Not(q)}, d)
SetEq(P, Q, d) == Subset(P, Q, d) /\ Subset(Q, P, d)

\* x (scaled by den: x = xs/den) satisfies c
Sat(c, xs, den) == IF c.s THEN Dot(c.a, xs) < c.b * den ELSE Dot(c.a, xs) <= c.b * den
SatAll(C, xs, den) == \A c \in C : Sat(c, xs, den)

(* Minimum of obj.x over the closed polyhedron C in R^d.                    *)
(* Introduce z = obj.x as variable 1, eliminate x, read the interval of z.   *)
\* result: [st |-> "inf"] | [st |-> "unb"] | [st |-> "opt", num, den]  (min = num/den, den > 0)
RECURSIVE ProjectTo1(_, _)
ProjectTo1(C, k) == IF k = 1 THEN C ELSE ProjectTo1(ElimVar(C, k), k - 1)

RatLess(n1, d1, n2, d2) == n1 * d2 < n2 * d1               \* n1/d1 < n2/d2, d1,d2 > 0

MinValue(C, obj, d) ==
    LET Ext(c) == [a |-> <<0>> \o c.a, b |-> c.b, s |-> c.s]
        zdef == {Le(<<1>> \o Neg(obj), 0), Le(<<-1>> \o obj, 0)}
        R == ProjectTo1(Tighten({Norm(Ext(c)) : c \in Closed(C)}) \cup {Ext(c) : c \in {e \in C : Absurd(e)}} \cup zdef, d + 1)
        lows == {c \in R : c.a[1] < 0}                       \* a z <= b, a < 0  =>  z >= b/a
    IN IF ~Feas(Closed(C), d) THEN [st |-> "inf"]
       ELSE IF lows = {} THEN [st |-> "unb"]
       ELSE LET best == CHOOSE c \in lows : \A e \in lows : ~RatLess(-c.b, -c.a[1], -e.b, -e.a[1])
            IN [st |-> "opt", num |-> -best.b, den |-> -best.a[1]]

MaxValue(C, obj, d) ==
    LET r == MinValue(C, Neg(obj), d)
    IN IF r.st = "opt" THEN [st |-> "opt", num |-> -r.num, den |-> r.den] ELSE r

\* rows of a polytope record [m |-> rows, b |-> bias] as closed constraints
PolyCons(p) == {Le(p.m[i], p.b[i]) : i \in 1..Len(p.m)}
=============================================================================
