---------------------------- MODULE Trace_Distill ----------------------------
(* Trace validator for the families "schema", "slice" (C17), "distill" (C01,     *)
(* C06 terminal bounds), "arch" and "npz" (C18) recorded from the real crate.     *)
EXTENDS Schema, TraceBase

M == INSTANCE MC_Distill WITH MODE <- "none", N <- 0, EMIT <- FALSE, stage <- "init", cur <- [none |-> TRUE], hist <- [none |-> TRUE]

VARIABLES l
vars == <<l>>
IsNone(j) == "none" \in DOMAIN j
V(prop, e, cond, what, sg) == Require(cond, Verdict(prop, e, what, sg))

ToT(j) ==
    LET idx == {j.nodes[n].i : n \in 1..Len(j.nodes)}
        At(i) == j.nodes[CHOOSE n \in 1..Len(j.nodes) : j.nodes[n].i = i]
    IN [root |-> j.root, dim |-> j.dim, k |-> j.k,
        nodes |-> [i \in idx |-> [p |-> At(i).p, ch |-> At(i).ch, leaf |-> At(i).leaf, m |-> At(i).m, b |-> At(i).b, q |-> At(i).q,
                                  st |-> At(i).st, w |-> At(i).w, ex |-> At(i).ex]],
        free |-> <<>>, slen |-> 1000000]
AllExact(j) == \A n \in 1..Len(j.nodes) : j.nodes[n].ex
Sane(t) ==
    /\ t.root \in Occ(t)
    /\ \A i \in Occ(t) : /\ \A s \in 1..Len(t.nodes[i].ch) : t.nodes[i].ch[s] # NONE => t.nodes[i].ch[s] \in Occ(t) /\ t.nodes[t.nodes[i].ch[s]].p = i
                         /\ Len(t.nodes[i].m) = Len(t.nodes[i].b)
                         /\ \A r \in 1..Len(t.nodes[i].m) : Len(t.nodes[i].m[r]) = t.dim
    /\ \A i \in Occ(t) : ~t.nodes[i].leaf => Len(t.nodes[i].m) >= 1 /\ Pow2(Len(t.nodes[i].m)) <= t.k
P0(t) == Strip(Pieces(t))

\* value of a piece-wise function at the point xs/den: [def, v, s] (all pieces containing the point agree by construction)
EvalPieces(F, xs, den) ==
    LET hits == {p \in F : SatAll(p.cons, xs, den)}
    IN IF hits = {} \/ \E p \in hits : p.out.u THEN [def |-> FALSE, v |-> <<>>, s |-> 1]
       ELSE LET p == CHOOSE x \in hits : TRUE IN [def |-> TRUE, v |-> ApplyOut(p.out, xs, den), s |-> p.out.q * den]
SameVal(gv, sv, ex) ==
    IF gv.d = 0 THEN ~ex.def ELSE IF gv.d = 2 THEN FALSE
    ELSE ex.def /\ Len(gv.v) = Len(ex.v) /\ \A r \in 1..Len(gv.v) : gv.v[r] * ex.s = ex.v[r] * sv
GridAgrees(e, scale, F) ==
    IsNone(e.grid) \/ \A n \in 1..Len(e.grid.vals) :
        LET gv == e.grid.vals[n] IN ~gv.ex \/ SameVal(gv, scale * e.grid.den, EvalPieces(F, gv.x, e.grid.den))
\* T-universe (values that are not exactly representable, e.g. 1/6): only grid points strictly inside a piece, i.e. not within
\* rounding distance of a breakpoint or tie
GridAgreesInterior(e, scale, F) ==
    IsNone(e.grid) \/ \A n \in 1..Len(e.grid.vals) :
        LET gv == e.grid.vals[n] IN
        ~gv.ex \/ ~(\E p \in F : SatAll(Strict(p.cons), gv.x, e.grid.den)) \/ SameVal(gv, scale * e.grid.den, EvalPieces(F, gv.x, e.grid.den))

\* ---------------------------------------------------------------- C17: predefined trees
CheckSchema(e) ==
    LET s == e.spec  nm == s.name IN
    IF e.res = "panic" THEN V("C17", e, FALSE, "generator panicked on valid parameters: " \o nm, "schema/" \o nm \o "/panic")
    ELSE LET t == ToT(e.tree)  F == Textbook(s) IN
         /\ V("C17", e, Sane(t) /\ t.dim = s.dim, "generated tree is malformed: " \o nm, "schema/" \o nm \o "/shape")
         /\ V("C17", e, ~Sane(t) \/ ~AllExact(e.tree) \/ PwlEq(P0(t), F, s.dim),
              nm \o " differs from its textbook definition on a non-empty set of inputs (breakpoints and ties included)", "schema/" \o nm \o "/law")
         /\ V("C17", e, ~Sane(t) \/ ~AllExact(e.tree) \/ GridAgrees(e, s.q, F), "evaluate() of " \o nm \o " differs from the textbook value at a grid point", "schema/" \o nm \o "/grid")
         /\ V("C04", e, ~Sane(t) \/ (NodeDimsOK(t) /\ DecisionRowsOK(t) /\ LeafIffNoChildren(t) /\ Cardinality(OutDims(t)) <= 1),
              "the predefined tree " \o nm \o " is not well-formed (mixed output dimensions, decision rows, leaf flags)", "schema/" \o nm \o "/wf")

\* cache soundness (C05) on a recorded tree: witnesses (logged at scale WQ) have the tree's dimension and satisfy the closed path conditions
WQ == 100000
SumAbs(v) == LET RECURSIVE G(_) G(n) == IF n = 0 THEN 0 ELSE Abs(v[n]) + G(n - 1) IN G(Len(v))
SatTol(c, ws, q) == Dot(c.a, ws) <= c.b * WQ + SumAbs(c.a) + q
CacheSound(t) ==
    \A i \in Occ(t) \ {t.root} :
        /\ t.nodes[i].st = "W" => \A j \in 1..Len(t.nodes[i].w) :
                LET wj == t.nodes[i].w[j] IN Len(wj.p) = t.dim /\ (~wj.ok \/ \A c \in ClosedRegion(t, i) : SatTol(c, wj.p, t.nodes[i].q))
        /\ t.nodes[i].st = "X" => ~HasInterior(ClosedRegion(t, i), t.dim)
\* direct variant: eliminate ; remove_axes ; eliminate on the tree itself
CheckSliceDirect(e) ==
    IF e.res = "panic" THEN V("C17", e, FALSE, "infeasible_elimination / remove_axes panicked", "slice-direct/panic")
    ELSE LET t == ToT(e.tree)  m == ToT(e.mid)  s == ToT(e.post)  kd == Len(KeepIdx(e.mask))
             total == \A i \in Occ(t) : ~t.nodes[i].leaf => \A j \in 1..Len(t.nodes[i].ch) : t.nodes[i].ch[j] # NONE IN
         /\ V("C17", e, Sane(m) /\ m.dim = kd /\ PwlEqUpToThin(P0(m), SlicePieces(P0(t), e.mask, e.ref), kd),
              "remove_axes after an elimination is not the restriction of the tree to the slice at 0", "slice-direct/law")
         /\ V("C05", e, ~Sane(m) \/ CacheSound(m), "after remove_axes a cached witness / infeasible mark of the earlier elimination is wrong for the new input space", "slice-direct/cache")
         /\ V("C03", e, ~Sane(m) \/ ~Sane(s) \/ PwlEqUpToThin(P0(s), P0(m), kd), "infeasible_elimination after remove_axes changed the function", "slice-direct/prune")
         /\ V("C05", e, ~Sane(s) \/ CacheSound(s), "unsound cache after the second elimination", "slice-direct/cache2")
         /\ V("C06", e, ~Sane(s) \/ ~total \/ \A i \in Occ(s) \ {s.root} : Feas(ClosedRegion(s, i), kd),
              "a node with an empty path region is left by the elimination that follows remove_axes", "slice-direct/empty-left")
         /\ V("C06", e, e.post2 = e.post, "a further elimination changed the tree again", "slice-direct/idem")

CheckSlice(e) ==
    IF "direct" \in DOMAIN e /\ e.direct THEN CheckSliceDirect(e) ELSE
    IF e.res = "panic" THEN V("C17", e, FALSE, "from_slice / compose / remove_axes panicked", "slice/panic")
    ELSE LET t == ToT(e.tree)  s == ToT(e.post)  kd == Len(KeepIdx(e.mask)) IN
         /\ V("C17", e, Sane(s) /\ s.dim = kd, "sliced tree is malformed or has the wrong input dimension", "slice/shape")
         /\ V("C17", e, ~Sane(s) \/ s.dim # kd \/ (IF e.prune THEN PwlEqUpToThin(P0(s), SlicePieces(P0(t), e.mask, e.ref), kd) ELSE PwlEq(P0(s), SlicePieces(P0(t), e.mask, e.ref), kd)),
              "from_slice ; compose ; remove_axes is not the restriction of the tree to the slice", "slice/law" \o (IF e.prune THEN "/pruned" ELSE ""))
         /\ V("C17", e, ~Sane(s) \/ s.dim # kd \/ e.prune \/ GridAgrees(e, e.q, SlicePieces(P0(t), e.mask, e.ref)),
              "evaluate() of the sliced tree differs from the restriction at a grid point", "slice/grid")
         /\ V("C17", e, \A n \in 1..Len(e.grid.vals) : e.grid.vals[n].d # 2, "evaluate() of the sliced tree panicked", "slice/eval-panic")
         /\ V("C05", e, ~Sane(s) \/ CacheSound(s), "after remove_axes a cached witness does not lie in its (lower-dimensional) path region or an infeasible mark is wrong", "slice/cache")

\* ---------------------------------------------------------------- C01: distillation
HasHead(layers) == \E j \in 1..Len(layers) : layers[j].k \in {"argmax", "class_char"}
OnlyRelu(layers) == \A j \in 1..Len(layers) : layers[j].k \in {"linear", "relu"}
\* exactly representable universe: every parameter is a dyadic rational (hard_sigmoid's 1/6 is not)
ExactUniverse(layers) == \A j \in 1..Len(layers) : layers[j].k # "hard_sigmoid"
NetShape(e) == (IF e.wscale # 0 THEN "wscale/" ELSE "") \o (IF e.pre.kind = "none" THEN "nopre" ELSE "pre") \o "/" \o (IF HasHead(e.layers) THEN "head" ELSE "nohead") \o (IF ExactUniverse(e.layers) THEN "/E" ELSE "/T")
CheckDistill(e) ==
    IF e.res = "panic" THEN V("C01", e, FALSE, "afftree_from_layers panicked on a dimension-consistent network", "distill/panic/" \o NetShape(e))
    ELSE IF ~AllExact(e.tree) THEN Note("INEXACT", e, "distilled tree not representable at the trace scale: exact comparison skipped")
    ELSE LET t == ToT(e.tree)  d == e.dim  F == NetPieces(e.layers, e.pre, d)
             pats == IF ~HasHead(e.layers) /\ e.pre.kind = "none" /\ e.wscale = 0 THEN NetPatterns(e.layers, d) ELSE {}
             full == {p \in pats : HasInterior(Closed(p.cons), d)}
             nonempty == {p \in pats : Feas(Closed(p.cons), d)}
         IN
         /\ V("C01", e, Sane(t) /\ t.dim = d, "distilled tree is malformed", "distill/shape")
         /\ V("C01", e, ~Sane(t) \/ ~AllExact(e.tree) \/ (IF ExactUniverse(e.layers) THEN PwlEq(P0(t), F, d) ELSE PwlEqUpToThin(P0(t), F, d)),
              "the distilled tree differs from the network (value or definedness) on a non-empty set of inputs", "distill/law/" \o NetShape(e))
         /\ V("C01", e, ~Sane(t) \/ ~AllExact(e.tree) \/ (IF ExactUniverse(e.layers) THEN GridAgrees(e, e.q, F) ELSE GridAgreesInterior(e, e.q, F)),
              "evaluate() of the distilled tree differs from the network at a grid point", "distill/grid/" \o NetShape(e))
         \* C06: number of terminals between the full-dimensional and the non-empty closed activation regions (ReLU networks, no head, no precondition)
         /\ V("C06", e, ~(~HasHead(e.layers) /\ e.pre.kind = "none" /\ e.wscale = 0) \/ (Cardinality({p.cons : p \in full}) <= e.num_terminals /\ e.num_terminals <= Cardinality(nonempty)),
              "number of terminals of a distilled network is outside [#full-dimensional activation regions, #non-empty closed regions]", "distill/terminals")

\* ---------------------------------------------------------------- C18: Architecture and layer files
RECURSIVE ArchWalk(_, _, _, _)
\* -> TRUE iff every call was accepted exactly when compatible and the tracked shape is right after every call
ArchWalk(calls, j, shape, nops) ==
    IF j > Len(calls) THEN TRUE
    ELSE LET c == calls[j].call
             acc == M!Accepts(shape, c)
             sh2 == M!ShapeAfter(shape, c)
             n2 == IF acc THEN nops + Len(M!LayersOf(shape, c)) ELSE nops
         IN calls[j].res = (IF acc THEN "ok" ELSE "err") /\ calls[j].shape = sh2 /\ calls[j].n_ops = n2 /\ ArchWalk(calls, j + 1, sh2, n2)
RECURSIVE FirstBad(_, _, _)
FirstBad(calls, j, shape) ==
    IF j > Len(calls) THEN "none"
    ELSE LET c == calls[j].call  acc == M!Accepts(shape, c) IN
         IF calls[j].res # (IF acc THEN "ok" ELSE "err") THEN c.call \o (IF acc THEN "/rejected" ELSE "/accepted")
         ELSE IF calls[j].shape # M!ShapeAfter(shape, c) THEN c.call \o "/shape"
         ELSE FirstBad(calls, j + 1, M!ShapeAfter(shape, c))
CheckArch(e) ==
    LET ok == ArchWalk(e.calls, 1, e.dim, 0) IN
    /\ V("C18", e, ok, "a builder call was accepted / rejected against dimension compatibility, or the tracked shape differs from the output dimension of the network built so far",
         "arch/" \o FirstBad(e.calls, 1, e.dim))
    /\ V("C18", e, ~ok \/ e.whole.res = "ok", "an accepted architecture does not distill (panic)", "arch/distill-panic")
    /\ V("C18", e, e.invalid_ranges = <<TRUE, TRUE>>, "extract_range accepted an invalid range", "arch/invalid-range")
    \* every sub-range: accepted iff 0 <= s < e <= n; input shape = shape in front of operator s, output shape = shape after operator e-1
    /\ V("C18", e, ~ok \/ \A n \in 1..Len(e.ranges) :
            LET r == e.ranges[n]  nops == Len(e.op_shapes)
                valid == r.s < r.e /\ r.e <= nops
                shapeBefore == IF r.s = 0 THEN e.dim ELSE e.op_shapes[r.s]
            IN IF ~valid THEN r.res = "err"
               ELSE r.res = "ok" /\ r["in"] = shapeBefore /\ r.out = e.op_shapes[r.e] /\ r.n = r.e - r.s /\ r.shapes = SubSeq(e.op_shapes, r.s + 1, r.e),
         "extract_range(s, e) has the wrong input / output shape, operators, or accepts / rejects a range wrongly", "arch/range")
    /\ V("C18", e, ~ok \/ e.whole.res # "ok" \/ \A n \in 1..Len(e.splits) :
            LET sp == e.splits[n] IN
            /\ sp.res = "ok" /\ sp.in_a = e.dim /\ sp.in_b = sp.out_a /\ sp.n_a = sp.k /\ sp.n_a + sp.n_b = Len(e.ops)
            /\ LET ta == ToT(sp.ta)  tb == ToT(sp.tb)  tw == ToT(e.whole.tree)
               IN Sane(ta) /\ Sane(tb) /\ Sane(tw) /\ (~(AllExact(sp.ta) /\ AllExact(sp.tb) /\ AllExact(e.whole.tree)) \/ PwlEqUpToThin(ComposePieces(P0(ta), P0(tb)), P0(tw), e.dim)),
         "for some split point the trees of extract_range(0,k) and extract_range(k,n) do not compose to the tree of the whole", "arch/split")
    \* staged distillation: afftree_from_layers(dim, layers of the second part, precondition = tree of the first part) is the whole network
    /\ V("C18", e, ~ok \/ e.whole.res # "ok" \/ \A n \in 1..Len(e.splits) :
            LET sp == e.splits[n] IN
            "staged" \notin DOMAIN sp \/
            (/\ sp.staged.res = "ok"
             /\ LET ts == ToT(sp.staged.tree)  tw == ToT(e.whole.tree)
                IN Sane(ts) /\ (~(AllExact(sp.staged.tree) /\ AllExact(e.whole.tree)) \/ PwlEqUpToThin(P0(ts), P0(tw), e.dim))),
         "distilling the second part with the tree of the first part as precondition panics or differs from the tree of the whole", "arch/staged")

RECURSIVE Expand(_, _, _)
\* layers denoted by a net description: one activation entry per neuron of the preceding linear layer
Expand(net, j, dim) ==
    IF j > Len(net) THEN <<>>
    ELSE IF net[j] \in {"relu", "hard_tanh", "hard_sigmoid"} THEN [r \in 1..dim |-> [k |-> net[j], row |-> r - 1]] \o Expand(net, j + 1, dim)
    ELSE <<[k |-> "linear", row |-> 0, m |-> M!NpzMat(net[j]).m, b |-> M!NpzMat(net[j]).b]>> \o Expand(net, j + 1, Len(M!NpzMat(net[j]).m))
CheckNpz(e) ==
    LET ex == Expand(e.script_net, 1, 0) IN
    /\ V("C18", e, e.res = "ok", "read_layers failed on a file in the documented dialect", "npz/" \o e.res)
    /\ V("C18", e, e.res # "ok" \/ (Len(e.layers) = Len(ex) /\ \A j \in 1..Len(ex) :
            /\ e.layers[j].k = ex[j].k
            /\ (ex[j].k = "linear" => e.layers[j].a.m = ex[j].m /\ e.layers[j].a.b = ex[j].b)
            /\ (ex[j].k # "linear" => e.layers[j].row = ex[j].row)),
         "read_layers does not return the layers in index order with the stored weights and one activation entry per neuron", "npz/layers")

CheckEvent(e) ==
    CASE e.fam = "schema" -> CheckSchema(e)
      [] e.fam = "slice" -> CheckSlice(e)
      [] e.fam = "distill" -> CheckDistill(e)
      [] e.fam = "arch" -> CheckArch(e)
      [] e.fam = "npz" -> CheckNpz(e)

Init == l = 1
Next == l <= Len(Rec) /\ (CheckEvent(Rec[l]) = TRUE) /\ l' = l + 1
Spec == Init /\ [][Next]_vars
Done == Require(TLCGet("stats").diameter = Len(Rec) + 1, PrintT("INCOMPLETE")) /\ PrintT("DONE " \o ToString(Len(Rec)))
=============================================================================
