------------------------------ MODULE TreeGen ------------------------------
(* Alphabets and enumeration of abstract AffTrees for the bounded models.     *)
(* All data are small integers (E-universe, scale 1), chosen so that paths    *)
(* over the predicates are strictly feasible, closed-empty, zero-width and     *)
(* that pulled-back predicates differ from the originals.                      *)
EXTENDS AffTreeL1

\* ---------------------------------------------------------------- alphabets (name -> set / sequence of affine records)
P(m, b) == Aff(<<m>>, <<b>>)
PredSet(name) ==
    CASE name = "p2a" -> {P(<<1, 0>>, 0), P(<<0, 1>>, 1), P(<<1, 1>>, 1)}
      [] name = "p2b" -> {P(<<1, 0>>, 0), P(<<0, 1>>, 1), P(<<1, 1>>, 1), P(<<1, -1>>, 0), P(<<-1, 0>>, 0)}
      [] name = "p2s" -> {P(<<1, 0>>, 0), P(<<1, 1>>, 1)}
      [] name = "p1x" -> {P(<<1>>, -1), P(<<1>>, 0), P(<<1>>, 1), P(<<-1>>, 0), P(<<-1>>, -1), P(<<0>>, 0), P(<<0>>, -1), P(<<2>>, 3), P(<<-2>>, -1)}   \* the last two: rows of another norm
      [] name = "p1y" -> {P(<<1>>, 0), P(<<1>>, 1), P(<<-1>>, 0), P(<<-1>>, -1)}
      [] name = "p2x" -> {P(<<1, 0>>, 0), P(<<-1, 0>>, 0), P(<<0, 1>>, 0), P(<<1, 1>>, 1), P(<<-1, -1>>, -2), P(<<1, 0>>, -1)}
      [] name = "p2one" -> {P(<<1, 1>>, 1)}
      [] name = "p1w" -> {P(<<1>>, 0), P(<<1>>, 1), P(<<-1>>, -1)}
      [] name = "p1v" -> {P(<<1>>, 0), P(<<1>>, 1), P(<<1>>, 2), P(<<-1>>, -3)}
      [] name = "p1f" -> {P(<<1>>, 0), P(<<-1>>, -1), P(<<0>>, -1)}
      [] name = "p1a" -> {P(<<1>>, 0), P(<<1>>, 1), P(<<-1>>, 0)}
      [] name = "p1s" -> {P(<<1>>, 0), P(<<-1>>, -1)}
      [] name = "pp2s" -> {Aff(<<<<1, 0>>, <<0, 1>>>>, <<0, 1>>), P(<<1, 1>>, 1)}
      [] name = "p3s" -> {P(<<1, 0, 0>>, 0), P(<<0, 1, 1>>, 1), P(<<1, -1, 0>>, 0)}          \* three input coordinates
      [] name = "pp2m" -> {Aff(<<<<1, 0>>, <<0, 1>>>>, <<0, 1>>), P(<<1, 0>>, 1)}     \* a two-row decision and a one-row context that separates its labels 1 and 2
      [] name = "pp2k" -> {Aff(<<<<-1, 0>>, <<0, 1>>>>, <<-1, 0>>), P(<<1, 1>>, 1)}        \* (x >= 1, y <= 0): strictly separated from labels of (x <= 0, y <= 1)
      [] name = "pp2n" -> {Aff(<<<<1, 0>>, <<0, 1>>>>, <<0, 1>>), P(<<1, 0>>, 1), P(<<1, 0>>, -1), P(<<0, 1>>, 2)}
      [] name = "pp2" -> {Aff(<<<<1, 0>>, <<0, 1>>>>, <<0, 0>>), Aff(<<<<1, 1>>, <<1, -1>>>>, <<1, 0>>), P(<<1, 0>>, 1), P(<<0, 0>>, 1), P(<<0, 0>>, -1)}   \* the last two: constant predicates
TermSet(name) ==
    CASE name = "t22a" -> {Aff(<<<<1, 0>>, <<0, 1>>>>, <<0, 0>>), Aff(<<<<0, 1>>, <<1, 0>>>>, <<1, -2>>)}
      [] name = "t22b" -> {Aff(<<<<1, 0>>, <<0, 1>>>>, <<0, 0>>), Aff(<<<<0, 1>>, <<1, 0>>>>, <<1, -2>>), Aff(<<<<2, 0>>, <<0, -1>>>>, <<0, -1>>)}
      [] name = "t22c" -> {Aff(<<<<1, 0>>, <<0, 1>>>>, <<0, 0>>), Aff(<<<<1, 0>>, <<0, 1>>>>, <<0, 1>>), Aff(<<<<1, 0>>, <<0, 2>>>>, <<0, 0>>)}   \* differ only in bias / one coefficient
      [] name = "t22z" -> {Aff(<<<<0, 0>>, <<0, 1>>>>, <<0, 0>>), Aff(<<<<1, 0>>, <<0, 0>>>>, <<0, 1>>), Aff(<<<<0, 0>>, <<0, 0>>>>, <<2, -1>>)}   \* the last one is constant     \* a constant component that ties with the thresholds of p2a
      [] name = "t33s" -> {Aff(<<<<0, 1, 0>>, <<1, 0, 1>>, <<0, 0, 2>>>>, <<1, 0, -1>>)}
      [] name = "t23s" -> {Aff(<<<<1, 0, 1>>, <<0, 2, -1>>>>, <<0, 1>>), Aff(<<<<0, 1, 0>>, <<1, 0, 0>>>>, <<2, 0>>)}     \* R^3 -> R^2
      [] name = "t22x" -> {Aff(<<<<1, 0>>, <<0, 1>>>>, <<0, 0>>), Aff(<<<<0, 1>>, <<1, 0>>>>, <<0, 0>>), Aff(<<<<0, 0>>, <<0, 0>>>>, <<1, 0>>), Aff(<<<<0, 0>>, <<0, 0>>>>, <<0, 1>>)}   \* pairs whose coefficient differences cancel in sum
      [] name = "t22r" -> {Aff(<<<<1, 0>>, <<1, 0>>>>, <<0, 0>>), Aff(<<<<1, 0>>, <<2, 0>>>>, <<-1, -2>>)}      \* components that coincide / are proportional
      [] name = "t22l" -> {Aff(<<<<1, 0>>, <<1, 1>>>>, <<0, 1>>), Aff(<<<<2, 0>>, <<0, 3>>>>, <<1, 0>>), Aff(<<<<1, 2>>, <<0, 1>>>>, <<0, 0>>)}    \* lower triangular, diagonal, upper triangular
      [] name = "t22s" -> {Aff(<<<<0, 1>>, <<1, 0>>>>, <<1, 0>>)}
      [] name = "tp2one" -> {Aff(<<<<1, 1>>>>, <<1>>), Aff(<<<<0, 1>>>>, <<0>>)}     \* the first one coincides with the predicate of p2one
      [] name = "tp2s" -> PredSet("p2s") \cup {Aff(<<<<0, 1>>>>, <<0>>)}          \* terminals R^2 -> R^1 that coincide with predicates of p2s
      [] name = "t12o" -> {Aff(<<<<1>>, <<-1>>>>, <<0, 0>>)}
      [] name = "t21" -> {Aff(<<<<1, 1>>>>, <<0>>), Aff(<<<<1, 0>>>>, <<-1>>)}
      [] name = "t12" -> {Aff(<<<<1>>, <<-1>>>>, <<0, 0>>), Aff(<<<<0>>, <<1>>>>, <<1, 1>>)}
      [] name = "t11o" -> {Aff(<<<<-2>>>>, <<1>>)}
      [] name = "t11s" -> {Aff(<<<<1>>>>, <<0>>), Aff(<<<<-2>>>>, <<1>>)}
      [] name = "t11p" -> {Aff(<<<<2>>>>, <<4>>)}
      [] name = "t11q" -> {Aff(<<<<1>>>>, <<2>>)}
      [] name = "t11" -> {Aff(<<<<1>>>>, <<0>>), Aff(<<<<-2>>>>, <<1>>), Aff(<<<<0>>>>, <<1>>)}
      [] name = "t22d" -> {Aff(<<<<2, 4>>, <<6, 2>>>>, <<4, 2>>), Aff(<<<<1, 2>>, <<3, 1>>>>, <<2, 1>>)}      \* no zero entries: safe divisors
      [] name = "t22ds" -> {Aff(<<<<1, 2>>, <<3, 1>>>>, <<2, 1>>)}
      [] name = "t22e" -> {Aff(<<<<4, 8>>, <<6, 2>>>>, <<4, 6>>), Aff(<<<<2, 4>>, <<6, 2>>>>, <<4, 2>>)}

\* ---------------------------------------------------------------- enumeration
RECURSIVE TreesN(_, _, _, _)
RECURSIVE KidTuples(_, _, _, _, _)
\* all tuples of `slots` kids with at most `budget` decisions in total
KidTuples(slots, budget, Pred, Term, K) ==
    IF slots = 0 THEN {<<>>}
    ELSE UNION {{<<c>> \o rest : rest \in KidTuples(slots - 1, budget - NumDec(c), Pred, Term, K)}
                : c \in TreesN(budget, Pred, Term, K) \cup {Missing}}
\* abstract trees with at most n decisions
TreesN(n, Pred, Term, K) ==
    {Leaf(a) : a \in Term}
    \cup (IF n = 0 THEN {}
          ELSE {Dec(p, kids) : p \in Pred,
                               kids \in {kt \in KidTuples(K, n - 1, Pred, Term, K) : \E j \in 1..K : kt[j].t # "M"}})
\* every leaf gets a different function: the first bias component is shifted by a code of the leaf's path (root 1, child 2c + label),
\* so that routing an input to a wrong terminal (e.g. after pruning a feasible branch) changes the represented function
RECURSIVE DistinctLeaves(_, _)
DistinctLeaves(x, code) ==
    CASE x.t = "M" -> x
      [] x.t = "L" -> Leaf([x.a EXCEPT !.b = [i \in 1..Len(x.a.b) |-> IF i = 1 THEN x.a.b[i] + 10 * code * x.a.q ELSE x.a.b[i]]])
      [] x.t = "D" -> Dec(x.a, [j \in 1..Len(x.kids) |-> DistinctLeaves(x.kids[j], 2 * code + j - 1)])
\* total trees only (every decision has all reachable children)
RECURSIVE IsTotal(_)
IsTotal(x) == x.t = "L" \/ (x.t = "D" /\ \A j \in 1..Len(x.kids) : (j <= Pow2(Len(x.a.m)) => x.kids[j].t # "M" /\ IsTotal(x.kids[j])))

\* sequence of observable nodes for JSON output
ObsSeq(t) ==
    LET idx == SortedSeq(Occ(t))
    IN [j \in 1..Len(idx) |-> [i |-> idx[j], p |-> t.nodes[idx[j]].p, ch |-> t.nodes[idx[j]].ch, leaf |-> t.nodes[idx[j]].leaf,
                               m |-> t.nodes[idx[j]].m, b |-> t.nodes[idx[j]].b, q |-> t.nodes[idx[j]].q]]
=============================================================================
