SPECIFICATION Spec
CONSTANTS
  MODE = "compose"
  K = 2
  NF = 2
  NG = 2
  PF = "p2s"
  TF = "t22a"
  PG = "p2s"
  TG = "t22s"
  LAYOUTS = {"dfs", "hole", "rev", "low"}
  EMIT = TRUE
VIEW View
INVARIANTS LawCompose IndicesKept ResultWellFormed
ACTION_CONSTRAINT Emit
CHECK_DEADLOCK FALSE
