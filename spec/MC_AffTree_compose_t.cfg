SPECIFICATION Spec
CONSTANTS
  MODE = "compose"
  K = 2
  NF = 2
  NG = 2
  PF = "p2a"
  TF = "t22b"
  PG = "p2b"
  TG = "t22b"
  LAYOUTS = {"dfs", "hole", "rev", "low"}
  EMIT = TRUE
VIEW View
INVARIANTS LawCompose IndicesKept ResultWellFormed
ACTION_CONSTRAINT Emit
CHECK_DEADLOCK FALSE
