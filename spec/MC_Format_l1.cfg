SPECIFICATION Spec
CONSTANTS
  LEVEL = 1
  EMIT = TRUE
INVARIANTS Faithful
ACTION_CONSTRAINT Emit
CHECK_DEADLOCK FALSE
