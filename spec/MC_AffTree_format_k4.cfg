SPECIFICATION Spec
CONSTANTS
  MODE = "format"
  K = 4
  NF = 1
  NG = 0
  PF = "pp2"
  TF = "t22b"
  PG = "p2x"
  TG = "t22b"
  LAYOUTS = {"dfs"}
  EMIT = TRUE
VIEW View
INVARIANTS ResultWellFormed
ACTION_CONSTRAINT Emit
CHECK_DEADLOCK FALSE
