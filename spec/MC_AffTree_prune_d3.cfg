SPECIFICATION Spec
CONSTANTS
  MODE = "prune"
  K = 2
  NF = 3
  NG = 0
  PF = "p1w"
  TF = "t12o"
  PG = "p1w"
  TG = "t12o"
  LAYOUTS = {"dfs"}
  EMIT = TRUE
VIEW View
INVARIANTS LawPrune LawCache LawEffective ResultWellFormed
ACTION_CONSTRAINT Emit
CHECK_DEADLOCK FALSE
