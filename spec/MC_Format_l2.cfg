SPECIFICATION Spec
CONSTANTS
  LEVEL = 2
  EMIT = TRUE
INVARIANTS Faithful
ACTION_CONSTRAINT Emit
CHECK_DEADLOCK FALSE
