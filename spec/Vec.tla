------------------------------- MODULE Vec -------------------------------
(* Integer vectors and matrices as sequences (Seq(Int), Seq(Seq(Int))).      *)
(* All numbers of the library are logged as integers scaled by a per-value   *)
(* factor q (fixed point); the operators here are plain integer arithmetic.  *)
EXTENDS Integers, Sequences, FiniteSets

Abs(x) == IF x < 0 THEN -x ELSE x
Max2(a, b) == IF a >= b THEN a ELSE b
Min2(a, b) == IF a <= b THEN a ELSE b
Sign(x) == IF x > 0 THEN 1 ELSE IF x < 0 THEN -1 ELSE 0

RECURSIVE Gcd(_, _)
Gcd(a, b) == IF b = 0 THEN a ELSE Gcd(b, a % b)          \* a, b >= 0

RECURSIVE GcdSeq(_, _)
GcdSeq(v, n) == IF n = 0 THEN 0 ELSE Gcd(Abs(v[n]), GcdSeq(v, n - 1))

RECURSIVE DotN(_, _, _)
DotN(u, v, n) == IF n = 0 THEN 0 ELSE u[n] * v[n] + DotN(u, v, n - 1)
Dot(u, v) == DotN(u, v, Len(u))

RECURSIVE SumN(_, _)
SumN(v, n) == IF n = 0 THEN 0 ELSE v[n] + SumN(v, n - 1)
SumSeq(v) == SumN(v, Len(v))

ZeroVec(n) == [i \in 1..n |-> 0]
UnitVec(n, k) == [i \in 1..n |-> IF i = k THEN 1 ELSE 0]
IsZero(v) == \A i \in 1..Len(v) : v[i] = 0
Neg(v) == [i \in 1..Len(v) |-> -v[i]]
Scale(k, v) == [i \in 1..Len(v) |-> k * v[i]]
VAdd(u, v) == [i \in 1..Len(u) |-> u[i] + v[i]]
VSub(u, v) == [i \in 1..Len(u) |-> u[i] - v[i]]

Rows(M) == Len(M)
Cols(M) == IF Len(M) = 0 THEN 0 ELSE Len(M[1])
MatVec(M, v) == [i \in 1..Len(M) |-> Dot(M[i], v)]
Col(M, j) == [i \in 1..Len(M) |-> M[i][j]]
Transpose(M) == [j \in 1..Cols(M) |-> Col(M, j)]
RowTimesMat(r, M) == [j \in 1..Cols(M) |-> DotN(r, Col(M, j), Len(r))]   \* r (1 x k) times M (k x n)
MatMul(A, B) == [i \in 1..Len(A) |-> RowTimesMat(A[i], B)]
MScale(k, M) == [i \in 1..Len(M) |-> Scale(k, M[i])]
MNeg(M) == [i \in 1..Len(M) |-> Neg(M[i])]
MAdd(A, B) == [i \in 1..Len(A) |-> VAdd(A[i], B[i])]
MSub(A, B) == [i \in 1..Len(A) |-> VSub(A[i], B[i])]
Eye(n) == [i \in 1..n |-> UnitVec(n, i)]
ZeroMat(m, n) == [i \in 1..m |-> ZeroVec(n)]
Diag(v) == [i \in 1..Len(v) |-> [j \in 1..Len(v) |-> IF i = j THEN v[i] ELSE 0]]

SeqToSet(s) == {s[i] : i \in 1..Len(s)}
RECURSIVE IsSubSeq(_, _, _, _)          \* s[i..] is a subsequence of t[j..]
IsSubSeq(s, t, i, j) ==
    IF i > Len(s) THEN TRUE
    ELSE IF j > Len(t) THEN FALSE
    ELSE IF s[i] = t[j] THEN IsSubSeq(s, t, i + 1, j + 1)
    ELSE IsSubSeq(s, t, i, j + 1)

\* all integer vectors of length n with entries in S
RECURSIVE VecsOver(_, _)
VecsOver(S, n) == IF n = 0 THEN {<<>>} ELSE {Append(v, x) : v \in VecsOver(S, n - 1), x \in S}
=============================================================================
