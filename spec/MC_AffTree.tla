----------------------------- MODULE MC_AffTree -----------------------------
(* Bounded instances over AffTrees: TLC enumerates operand trees from the      *)
(* alphabets of TreeGen (total and partial, several arena layouts), applies    *)
(* the L1 algorithm of AffTreeL1 and checks the L0 law of the listed property   *)
(* by Fourier-Motzkin; every transition that applies an operation is printed    *)
(* as a replay script for the harness.                                          *)
EXTENDS TreeGen, Json

CONSTANTS MODE,          \* "compose" | "arith" | "reduce" | ...
          K, NF, NG,     \* branching factor, max decisions of the left / right operand
          PF, TF, PG, TG,\* alphabet names
          LAYOUTS, EMIT

VARIABLES stage, f, g, h, op, aff, sched, hist

vars == <<stage, f, g, h, op, aff, sched, hist>>
\* history mode: the script that led to the current tree is a history variable, hidden from the fingerprint
View == <<stage, f, g, h, op, aff, sched>>
None == [none |-> TRUE]

\* reduce: a decision below the root whose two children are decisions that both collapse (cascading merges over two levels),
\* terminals from the first two elements of TF so that merges happen at some levels and not at others
CascadeTrees ==
    LET ts == TermSet(TF)
        pr == CHOOSE x \in PredSet(PF) : TRUE
        L(a) == Leaf(a)
    IN UNION {{Dec(pr, <<L(t0), Dec(pr, <<Dec(pr, <<L(t1), L(t2)>>), Dec(pr, <<L(t3), L(t4)>>)>>)>>),
               Dec(pr, <<Dec(pr, <<Dec(pr, <<L(t1), L(t2)>>), Dec(pr, <<L(t3), L(t4)>>)>>), L(t0)>>)}
              : t0 \in ts, t1 \in ts, t2 \in ts, t3 \in ts, t4 \in ts}
\* pruned composition: partial operands with a one-child decision next to a two-child decision (both orientations)
PartialDeep ==
    LET tm == CHOOSE a \in TermSet(TG) : TRUE
        Lf(k) == Leaf([tm EXCEPT !.b = [i \in 1..Len(tm.b) |-> IF i = 1 THEN 10 * k ELSE tm.b[i]]])
    IN UNION {{Dec(p0, <<Dec(p1, <<Lf(1), Missing>>), Dec(p2, <<Lf(2), Lf(3)>>)>>), Dec(p0, <<Dec(p1, <<Missing, Lf(1)>>), Dec(p2, <<Lf(2), Lf(3)>>)>>),
               Dec(p0, <<Dec(p2, <<Lf(2), Lf(3)>>), Dec(p1, <<Lf(1), Missing>>)>>), Dec(p0, <<Dec(p2, <<Lf(2), Lf(3)>>), Dec(p1, <<Missing, Lf(1)>>)>>)}
              : p0 \in PredSet(PG), p1 \in PredSet(PG), p2 \in PredSet(PG)}
\* K = 4 elimination: a partial two-row decision P (two of its four labels present: a terminal and a one-child decision F) below a
\* one-row root - forwarding P would drop a predicate that inputs can still fail
PartialK4 ==
    LET tm == CHOOSE a \in TermSet(TF) : TRUE
        Lf(k) == Leaf([tm EXCEPT !.b = [i \in 1..Len(tm.b) |-> IF i = 1 THEN 10 * k ELSE tm.b[i]]])
        one == {p \in PredSet("pp2n") : Len(p.m) = 1}
        two == {p \in PredSet("pp2n") : Len(p.m) = 2}
        Kids4(a, x, b, y) == [j \in 1..4 |-> IF j = a THEN x ELSE IF j = b THEN y ELSE Missing]
        Slots == {ab \in (1..4) \X (1..4) : ab[1] # ab[2]}
    IN UNION {{Dec(p0, <<Lf(0), Dec(p1, Kids4(ab[1], Lf(1), ab[2], Dec(q, Kids4(l, Lf(2), 0, Missing)))), Missing, Missing>>)
                  : ab \in Slots, l \in 1..2} : p0 \in one, p1 \in two, q \in one}
\* fault sweeps: chains of three decisions (a decision at depth 2 whose LP call can be made to fail while an ancestor holds witnesses)
Chain3 ==
    LET tm == CHOOSE a \in TermSet(TF) : TRUE
        Lf(k) == Leaf([tm EXCEPT !.b = [i \in 1..Len(tm.b) |-> IF i = 1 THEN 10 * k ELSE tm.b[i]]])
    IN UNION {{Dec(p0, <<Dec(p1, <<Dec(p2, <<Lf(1), Lf(2)>>), Lf(3)>>), Lf(4)>>), Dec(p0, <<Lf(4), Dec(p1, <<Lf(3), Dec(p2, <<Lf(1), Lf(2)>>)>>)>>)}
              : p0 \in PredSet(PF), p1 \in PredSet(PF), p2 \in PredSet(PF)}
\* reduce: every total tree shape with exactly n decisions (one predicate, terminals from two functions): unbalanced trees in which
\* a decision that cannot be merged precedes, in the reverse breadth-first sweep, one that can
RECURSIVE FullN(_, _, _)
FullN(n, pr, ts) == IF n = 0 THEN {Leaf(a) : a \in ts}
                    ELSE UNION {{Dec(pr, <<lt, rt>>) : lt \in FullN(k, pr, ts), rt \in FullN(n - 1 - k, pr, ts)} : k \in 0..(n - 1)}
FullTrees == LET ts == TermSet(TF)  t1 == CHOOSE a \in ts : TRUE  t2 == CHOOSE a \in ts \ {t1} : TRUE
             IN FullN(3 + NG, CHOOSE x \in PredSet(PF) : TRUE, {t1, t2})          \* NG = 1: 4 decisions, NG = 2: 5 decisions
FSet == TreesN(NF, PredSet(PF), TermSet(TF), K) \cup (IF MODE = "reduce" /\ NG >= 1 THEN CascadeTrees \cup FullTrees ELSE {})
        \cup (IF MODE = "prune" /\ K = 4 THEN PartialK4 ELSE {})
        \cup (IF MODE = "fault" /\ Len((CHOOSE p \in PredSet(PF) : TRUE).m[1]) = 1 THEN Chain3 ELSE {})      \* one input coordinate only (cost)
GSetAll == TreesN(NG, PredSet(PG), TermSet(TG), K)
\* "arithdeep": deep total right operands (paths of different length below the grafted root), + and - only
\* unbalanced total operands: one branch of the root is one level deeper than the other (both orientations), every predicate from PG
DeepTrees ==
    \* every leaf carries a different function (same shape as the terminals of TG, bias = position), so pruning a wrong branch is visible
    LET tm == CHOOSE a \in TermSet(TG) : TRUE
        Lf(k) == Leaf([tm EXCEPT !.b = [i \in 1..Len(tm.b) |-> k]])
    IN UNION {{Dec(p0, <<Dec(p1, <<Lf(1), Lf(2)>>), Dec(p2, <<Lf(3), Dec(p3, <<Lf(4), Lf(5)>>)>>)>>),
               Dec(p0, <<Dec(p2, <<Dec(p3, <<Lf(4), Lf(5)>>), Lf(3)>>), Dec(p1, <<Lf(1), Lf(2)>>)>>)}
              : p0 \in PredSet(PG), p1 \in PredSet(PG), p2 \in PredSet(PG), p3 \in PredSet(PG)}
\* K = 4: right operands with a decision below the root whose children sit only under the high labels 2 and 3 (or only 3)
HighSlotTrees ==
    LET tm == CHOOSE a \in TermSet(TG) : TRUE
        Lf(k) == Leaf([tm EXCEPT !.b = [i \in 1..Len(tm.b) |-> k]])
        two == {p \in PredSet(PG) : Len(p.m) = 2}
    IN UNION {{Dec(p0, <<Dec(p1, <<Missing, Missing, Lf(1), Lf(2)>>), Lf(3), Missing, Missing>>),
               Dec(p0, <<Lf(3), Dec(p1, <<Missing, Missing, Missing, Lf(1)>>), Lf(2), Lf(4)>>),
               Dec(p0, <<Lf(3), Dec(p1, <<Missing, Missing, Lf(1), Missing>>), Missing, Missing>>)}
              : p0 \in PredSet(PG), p1 \in two}
GSet == IF MODE = "arithdeep" THEN DeepTrees ELSE IF MODE = "prunedeep" THEN PartialDeep
        ELSE IF MODE \in {"compose", "arith"} /\ K = 4 THEN GSetAll \cup HighSlotTrees ELSE GSetAll
Ops == CASE MODE = "compose" -> {"compose"}
         [] MODE = "arith" -> {"add", "sub", "mul", "div"}
         [] MODE = "arithdeep" -> {"add", "sub"}
         [] MODE = "reduce" -> {"reduce"}
         [] MODE = "arithaff" -> {"neg", "add_aff", "sub_aff", "mul_aff", "div_aff"}
         [] MODE = "prune" -> {"eliminate"}
         [] MODE = "pruneg" -> {"compose_prune", "elim_compose_elim", "compose_rhs_elim"}
         [] MODE = "prunea" -> {"elim_add", "elim_sub", "add_rhs_elim"}
         [] MODE = "prunedeep" -> {"compose_prune"}
         [] OTHER -> {}

Init == stage = "init" /\ f = None /\ g = None /\ h = None /\ op = "" /\ aff = None /\ sched = <<>> /\ hist = None

PickF == \E x \in FSet, lay \in LAYOUTS :
    /\ stage = "init"
    /\ ~(lay \in {"hole", "holed", "low"} /\ (x.t # "D" \/ ScriptOf(x, K, lay) = ScriptOf(x, K, "dfs")))
    /\ f' = [abs |-> x, lay |-> lay, t |-> BuildTree(x, K, lay)]
    /\ stage' = "f" /\ UNCHANGED <<g, h, op, aff, sched, hist>>
\* in the pruning modes the leaves of the right operand are made pairwise different (see DistinctLeaves)
GOf(x) == IF MODE \in {"pruneg", "prunea"} THEN DistinctLeaves(x, 1) ELSE x
PickG == \E y \in GSet :
    LET x == GOf(y) IN
    /\ stage = "f" /\ MODE \in {"compose", "arith", "arithdeep", "pruneg", "prunea", "prunedeep"}
    /\ g' = [abs |-> x, lay |-> "dfs", t |-> BuildTree(x, K, "dfs")]
    /\ stage' = "fg" /\ UNCHANGED <<f, h, op, aff, sched, hist>>
Apply == \E o \in Ops :
    /\ \/ (stage = "fg" /\ MODE \in {"compose", "arith", "arithdeep"}) \/ (stage = "f" /\ MODE = "reduce")
       \/ (stage = "f" /\ MODE = "prune") \/ (stage = "fg" /\ MODE \in {"pruneg", "prunea", "prunedeep"})
    /\ op' = o
    /\ h' = CASE o = "compose" -> Compose(f.t, g.t)
              [] o \in {"add", "sub", "mul", "div"} -> Arith(o, f.t, g.t)
              [] o = "reduce" -> Reduce(f.t)
              [] o = "eliminate" -> Eliminate(f.t)
              [] o = "compose_prune" -> ComposePruned(f.t, g.t)
              [] o = "elim_compose_elim" -> Eliminate(Compose(Eliminate(f.t), g.t))
              [] o = "elim_add" -> Arith("add", Eliminate(f.t), g.t)
              [] o = "elim_sub" -> Arith("sub", Eliminate(f.t), g.t)
              \* the right operand carries cached feasibility states (it was eliminated before); new nodes must start Indeterminate
              [] o = "compose_rhs_elim" -> Eliminate(Compose(f.t, Eliminate(g.t)))
              [] o = "add_rhs_elim" -> Eliminate(Arith("add", f.t, Eliminate(g.t)))
    /\ stage' = "done" /\ UNCHANGED <<f, g, aff, sched, hist>>

\* tree (op) affine: the operator is applied to every terminal (tree first); -tree
UnaryOnTerminals(t, F(_)) == [t EXCEPT !.nodes = [i \in Occ(t) |-> IF t.nodes[i].leaf THEN SetAff(t.nodes[i], F(AffOf(t.nodes[i]))) ELSE t.nodes[i]]]
OutAff(o) == [m |-> o.m, b |-> o.b, q |-> o.q]
ApplyAff == \E o \in Ops, a \in TermSet(TG) :
    /\ stage = "f" /\ MODE = "arithaff"
    /\ (o = "neg" => a = CHOOSE x \in TermSet(TG) : TRUE)
    /\ op' = o /\ aff' = a
    /\ h' = IF o = "neg" THEN NegTree(f.t)
            ELSE UnaryOnTerminals(f.t, LAMBDA ta : OutAff(CoeffWise(SubSeq(o, 1, 3), Out(ta.m, ta.b, ta.q), Out(a.m, a.b, a.q))))
    /\ stage' = "done" /\ UNCHANGED <<f, g, sched, hist>>

\* regions (C09): the tree itself is observed; a schedule "n" x |tree| with skip_subtree after the positions of S
\* dbl: skip_subtree is called twice in a row at the positions of S (a repeated call must not skip anything more)
SchedOf(n, S, dbl) == LET RECURSIVE G(_) G(j) == IF j > n THEN <<>> ELSE <<"n">> \o (IF j \in S THEN (IF dbl THEN <<"s", "s">> ELSE <<"s">>) ELSE <<>>) \o G(j + 1) IN G(1)
ApplyRegions == \E S \in SUBSET (1..(IF stage = "f" THEN Cardinality(Occ(f.t)) ELSE 0)), dbl \in BOOLEAN :
    /\ stage = "f" /\ MODE = "regions"
    /\ Cardinality(S) <= NG                       \* NG = maximal number of skip positions in this mode
    /\ (dbl => S # {})
    /\ op' = "regions" /\ h' = f.t /\ sched' = SchedOf(Cardinality(Occ(f.t)), S, dbl)
    /\ stage' = "done" /\ UNCHANGED <<f, g, aff, hist>>

\* C11: LP faults as environment actions: any set of at most NG faulty LP calls (position x kind) during the elimination
SortedPlan(plan) == LET ks == SortedSeq({pr[1] : pr \in plan}) IN [j \in 1..Len(ks) |-> <<ks[j], FaultAt(plan, ks[j])>>]
FaultKinds == {"Error", "Unbounded", "Perturbed", "FarOff"}
ApplyFault == \E plan \in SUBSET ((0..(IF stage = "f" /\ MODE = "fault" THEN LpCalls(f.t) - 1 ELSE -1)) \X FaultKinds) :
    /\ stage = "f" /\ MODE = "fault"
    /\ Cardinality(plan) <= NG /\ Cardinality({pr[1] : pr \in plan}) = Cardinality(plan)
    /\ op' = "eliminate" /\ h' = EliminateF(f.t, plan) /\ sched' = SortedPlan(plan)
    /\ stage' = "done" /\ UNCHANGED <<f, g, aff, hist>>

\* ------------------------------------------------------------------ histories (C04, C05): sequences of operations of bounded depth
\* operands: trees over R^2 -> R^2 for composition, trees over the input space with R^2 outputs for + and -
ReluFirst == Dec(P(<<1, 0>>, 0), <<Leaf(Aff(<<<<1, 0>>, <<0, 1>>>>, <<0, 0>>)), Leaf(Aff(<<<<0, 0>>, <<0, 1>>>>, <<0, 0>>))>>)
ReluFirstPartial == Dec(P(<<1, 0>>, 0), <<Missing, Leaf(Aff(<<<<0, 0>>, <<0, 1>>>>, <<0, 0>>))>>)
TwoLevelPartial == Dec(P(<<0, 1>>, 1), <<Dec(P(<<1, 0>>, 0), <<Missing, Leaf(Aff(<<<<0, 0>>, <<0, 1>>>>, <<0, 0>>))>>), Leaf(Aff(<<<<1, 0>>, <<0, 1>>>>, <<0, 0>>))>>)
HistCompose == {ReluFirst, ReluFirstPartial, TwoLevelPartial, Leaf(Aff(<<<<0, 1>>, <<1, 0>>>>, <<1, -2>>))}
HistArith == {Dec(P(<<1>>, 1), <<Dec(P(<<1>>, 0), <<Leaf(Aff(<<<<1>>, <<-1>>>>, <<0, 0>>)), Missing>>), Leaf(Aff(<<<<0>>, <<1>>>>, <<1, 1>>))>>),
              Dec(P(<<1>>, 0), <<Leaf(Aff(<<<<1>>, <<-1>>>>, <<0, 0>>)), Leaf(Aff(<<<<0>>, <<1>>>>, <<1, 1>>))>>),
              Dec(P(<<-1>>, -1), <<Leaf(Aff(<<<<2>>, <<0>>>>, <<0, 1>>)), Missing>>)}
HistAff == {Aff(<<<<0, 1>>, <<1, 0>>>>, <<1, -2>>), Aff(<<<<1, 1>>, <<0, 2>>>>, <<0, 0>>)}
NoAff == [m |-> <<>>, b |-> <<>>, q |-> 1]
HStep(o, x, a) == [op |-> o, rhs |-> IF x = None THEN <<>> ELSE ScriptOf(x, K, "dfs"), aff |-> a, rhs_elim |-> FALSE]
HistStart == \E x \in FSet :
    /\ stage = "init" /\ MODE = "history"
    /\ f' = [abs |-> x, lay |-> "dfs", t |-> BuildTree(x, K, "dfs")]
    /\ h' = BuildTree(x, K, "dfs") /\ hist' = [init |-> x, steps |-> <<>>]
    /\ stage' = "h0" /\ UNCHANGED <<g, op, aff, sched>>
Depth == CASE stage = "h0" -> 0 [] stage = "h1" -> 1 [] stage = "h2" -> 2 [] stage = "h3" -> 3 [] OTHER -> 99
StageOf(n) == CASE n = 1 -> "h1" [] n = 2 -> "h2" [] n = 3 -> "h3" [] OTHER -> "h4"
\* operands of compose / + / - / apply_func expect two output components; after a composition that changes the output dimension
\* (HistComposeDim) only the operations that do not depend on it remain enabled
HistComposeDim == {Leaf(Aff(<<<<1, 1>>>>, <<3>>))}
HistDo(o, x, a, res) ==
    /\ MODE = "history" /\ Depth < NG                                   \* NG = depth bound in this mode
    /\ (o \in {"eliminate", "reduce", "neg"} \/ OutDims(h) \subseteq {2})
    /\ f' = [abs |-> f.abs, lay |-> "dfs", t |-> h]                        \* f.t = tree before the step
    /\ g' = IF x = None THEN None ELSE [abs |-> x, lay |-> "dfs", t |-> BuildTree(x, K, "dfs")]
    /\ h' = res /\ op' = o /\ aff' = IF a = NoAff THEN None ELSE a
    /\ hist' = [hist EXCEPT !.steps = Append(hist.steps, HStep(o, x, a))]
    /\ stage' = StageOf(Depth + 1) /\ UNCHANGED sched
\* one step beyond the depth bound: directly after an elimination (cached states, infeasible last children kept) a composition that
\* changes the output dimension - every terminal must be rewritten, whatever its cached state says
HistTail == \E x \in HistComposeDim, o \in {"compose", "compose_prune"} :
    /\ MODE = "history" /\ Depth = NG /\ op = "eliminate" /\ OutDims(h) \subseteq {2}
    /\ f' = [abs |-> f.abs, lay |-> "dfs", t |-> h]
    /\ g' = [abs |-> x, lay |-> "dfs", t |-> BuildTree(x, K, "dfs")]
    /\ h' = (IF o = "compose" THEN Compose(h, BuildTree(x, K, "dfs")) ELSE ComposePruned(h, BuildTree(x, K, "dfs"))) /\ op' = o /\ aff' = None
    /\ hist' = [hist EXCEPT !.steps = Append(hist.steps, HStep(o, x, NoAff))]
    /\ stage' = StageOf(Depth + 1) /\ UNCHANGED sched
\* the same with apply_func of a map into R^1
HistTailAff == \E a \in {Aff(<<<<1, 1>>>>, <<3>>)} :
    /\ MODE = "history" /\ Depth = NG /\ op = "eliminate" /\ OutDims(h) \subseteq {2}
    /\ f' = [abs |-> f.abs, lay |-> "dfs", t |-> h] /\ g' = None
    /\ h' = ApplyFunc(h, a) /\ op' = "apply_func" /\ aff' = a
    /\ hist' = [hist EXCEPT !.steps = Append(hist.steps, HStep("apply_func", None, a))]
    /\ stage' = StageOf(Depth + 1) /\ UNCHANGED sched
HistNext ==
    \/ HistTail \/ HistTailAff
    \/ HistDo("eliminate", None, NoAff, Eliminate(h))
    \/ HistDo("reduce", None, NoAff, Reduce(h))
    \/ HistDo("neg", None, NoAff, NegTree(h))
    \/ \E a \in HistAff : HistDo("apply_func", None, a, ApplyFunc(h, a))
    \* replace_node on the first non-root node in index order (the harness applies the same rule)
    \/ (\E a \in {Aff(<<<<2>>, <<1>>>>, <<3, -1>>)} : Cardinality(Occ(h)) > 1 /\
            HistDo("replace_node", None, a, ReplaceNode(h, CHOOSE i \in Occ(h) \ {h.root} : \A j \in Occ(h) \ {h.root} : i <= j, a)))
    \/ \E x \in HistCompose \cup HistComposeDim : HistDo("compose", x, NoAff, Compose(h, BuildTree(x, K, "dfs")))
    \/ \E x \in HistCompose \cup HistComposeDim : HistDo("compose_prune", x, NoAff, ComposePruned(h, BuildTree(x, K, "dfs")))
    \/ \E x \in HistArith : HistDo("add", x, NoAff, Arith("add", h, BuildTree(x, K, "dfs")))
    \/ \E x \in HistArith : HistDo("sub", x, NoAff, Arith("sub", h, BuildTree(x, K, "dfs")))

\* C02: apply_func(a) is the special case of an affine right operand
\* plus a pure translation of the output space (identity matrix, non-zero offset)
OutDimF == Len((CHOOSE x \in TermSet(TF) : TRUE).m)
ApplyFuncAct == \E a \in {x \in TermSet(TG) : Cols(x.m) = OutDimF} \cup {Aff(Eye(OutDimF), [i \in 1..OutDimF |-> 2 * i - 3])} :
    /\ stage = "f" /\ MODE = "compose"
    /\ op' = "apply_func" /\ aff' = a /\ h' = ApplyFunc(f.t, a)
    /\ stage' = "done" /\ UNCHANGED <<f, g, sched, hist>>

\* C19: the tree itself is rendered (DOT, Display)
ApplyFormat ==
    /\ stage = "f" /\ MODE = "format"
    /\ op' = "format" /\ h' = f.t
    /\ stage' = "done" /\ UNCHANGED <<f, g, aff, sched, hist>>

Next == PickF \/ PickG \/ Apply \/ ApplyAff \/ ApplyRegions \/ ApplyFault \/ ApplyFormat \/ ApplyFuncAct \/ HistStart \/ (stage \in {"h0", "h1", "h2", "h3"} /\ HistNext)
Spec == Init /\ [][Next]_vars

\* ------------------------------------------------------------------ properties at design level
D == IF f = None THEN 0 ELSE f.t.dim
PF0 == Strip(Pieces(f.t))
PG0 == Strip(Pieces(g.t))
PH0 == Strip(Pieces(h))
\* C02: h = g after f, undefinedness included
LawCompose == /\ (stage = "done" /\ op = "compose") => PwlEq(PH0, ComposePieces(PF0, PG0), D)
              /\ (stage = "done" /\ op = "apply_func") => PwlEq(PH0, ComposePieces(PF0, {[cons |-> {}, out |-> Out(aff.m, aff.b, aff.q)]}), D)
\* C02: surviving nodes of f keep index, parent, label; decisions keep their predicate
IndicesKept == (stage = "done" /\ op = "compose") =>
    \A i \in Occ(f.t) : /\ i \in Occ(h) /\ h.nodes[i].p = f.t.nodes[i].p
                        /\ (f.t.nodes[i].p # NONE => \E s \in 1..K : f.t.nodes[f.t.nodes[i].p].ch[s] = i /\ h.nodes[f.t.nodes[i].p].ch[s] = i)
                        /\ (~f.t.nodes[i].leaf => AffOf(h.nodes[i]) = AffOf(f.t.nodes[i]) /\ ~h.nodes[i].leaf)
\* C07: arithmetic is the point-wise lifting (pruning may only drop thin regions)
LawArith == (stage = "done" /\ op \in {"add", "sub", "mul", "div"}) => PwlEqUpToThin(PH0, LiftPieces(op, PF0, PG0), D)
LawArithAff == (stage = "done" /\ MODE = "arithaff") =>
    PwlEq(PH0, IF op = "neg" THEN {[cons |-> p.cons, out |-> NegOut(p.out)] : p \in PF0}
               ELSE LiftPieces(SubSeq(op, 1, 3), PF0, {[cons |-> {}, out |-> Out(aff.m, aff.b, aff.q)]}), D)
\* C03: pruning never changes the function (differences only on regions with empty interior)
Expected == CASE op = "eliminate" -> PF0
              [] op \in {"compose_prune", "elim_compose_elim", "compose_rhs_elim"} -> ComposePieces(PF0, PG0)
              [] op = "add_rhs_elim" -> LiftPieces("add", PF0, PG0)
              [] op = "elim_add" -> LiftPieces("add", PF0, PG0)
              [] op = "elim_sub" -> LiftPieces("sub", PF0, PG0)
LawPrune == (stage = "done" /\ MODE \in {"prune", "pruneg", "prunea", "prunedeep"}) => PwlEqUpToThin(PH0, Expected, D)
\* C05: cached witnesses lie in the closed path region; nodes marked infeasible have no interior
CacheSound(t) ==
    \A i \in Occ(t) \ {t.root} :
        /\ t.nodes[i].st = "W" => \A j \in 1..Len(t.nodes[i].w) : SatAll(ClosedRegion(t, i), t.nodes[i].w[j], 2)
        /\ t.nodes[i].st = "X" => ~HasInterior(ClosedRegion(t, i), t.dim)
LawCache == (stage = "done" /\ MODE \in {"prune", "pruneg", "prunea", "prunedeep"}) => CacheSound(h)
\* C06: on total trees elimination is effective and idempotent
TotalTree(t) == \A i \in Occ(t) : ~t.nodes[i].leaf => \A sl \in 1..t.k : t.nodes[i].ch[sl] # NONE
LawEffective == (stage = "done" /\ MODE \in {"prune", "pruneg", "prunea", "prunedeep"} /\ op \in {"eliminate", "elim_compose_elim", "compose_rhs_elim"} /\ TotalTree(f.t) /\ (op = "eliminate" \/ TotalTree(g.t))) =>
    /\ \A i \in Occ(h) \ {h.root} : Feas(ClosedRegion(h, i), D)
    /\ \A i \in Occ(h) \ {h.root} : ~h.nodes[i].leaf => NumChildren(h.nodes[i]) # 1
    /\ ObsTree(Eliminate(h)) = ObsTree(h)
\* C11: under any fault plan the function is unchanged, caches stay sound, the tree is well-formed and only less is pruned
\* "only less pruning" is read as: nothing that an input can take is lost - a node missing from the result although the
\* fault-free run keeps it lies on a path without interior (the fault-free run may keep such a node only because it is the last
\* child of its decision)
RECURSIVE ThinAncM(_, _)
ThinAncM(t, i) == ~HasInterior(ClosedRegion(t, i), t.dim) \/ (t.nodes[i].p # NONE /\ ThinAncM(t, t.nodes[i].p))
LawFault == (stage = "done" /\ MODE = "fault") =>
    /\ PwlEqUpToThin(PH0, PF0, D)
    /\ CacheSound(h)
    /\ \A i \in Occ(Eliminate(f.t)) \ Occ(h) : ThinAncM(f.t, i)
\* C09: the closed path polytope reported for a node (what PolyhedraGen builds) contains the node's routing region, and its
\* interior is routed through the node; distinct terminals have disjoint interiors
LawRegions == (stage = "done" /\ MODE = "regions") =>
    /\ \A i \in Occ(h) : Subset(RouteRegion(h, i), ClosedRegion(h, i), D) /\ Subset(Strict(ClosedRegion(h, i)), RouteRegion(h, i), D)
    /\ \A i, j \in {x \in Occ(h) : h.nodes[x].leaf} : i = j \/ ~Feas(Strict(ClosedRegion(h, i)) \cup Strict(ClosedRegion(h, j)), D)
\* C08: reduce keeps the function, never grows, is idempotent, leaves no mergeable pair below the root
LawReduce == (stage = "done" /\ op = "reduce") =>
    /\ PwlEq(PH0, PF0, D)
    /\ Cardinality(Occ(h)) <= Cardinality(Occ(f.t))
    /\ ObsTree(Reduce(h)) = ObsTree(h)
    /\ \A i \in Occ(h) \ {h.root} : ~h.nodes[i].leaf /\ h.nodes[i].ch[1] # NONE /\ h.nodes[i].ch[2] # NONE
           /\ h.nodes[h.nodes[i].ch[1]].leaf /\ h.nodes[h.nodes[i].ch[2]].leaf
           => AffOf(h.nodes[h.nodes[i].ch[1]]) # AffOf(h.nodes[h.nodes[i].ch[2]])
\* C04 (shape part): the result is well-formed
WellFormed(t) == NodeDimsOK(t) /\ DecisionRowsOK(t) /\ LeafIffNoChildren(t) /\ Cardinality(OutDims(t)) <= 1
ResultWellFormed == stage = "done" => (WellFormed(f.t) => WellFormed(h))

\* C04 / C05 over histories: every step keeps the tree well-formed, caches sound and has the meaning of its operation
InHist == MODE = "history" /\ stage \in {"h1", "h2", "h3", "h4"}
HistExpected ==
    CASE op \in {"eliminate", "reduce"} -> PF0
      [] op = "neg" -> {[cons |-> p.cons, out |-> NegOut(p.out)] : p \in PF0}
      [] op = "replace_node" -> PH0           \* meaning checked by the validator (ReplacePieces); here only well-formedness and caches
      [] op = "apply_func" -> ComposePieces(PF0, {[cons |-> {}, out |-> Out(aff.m, aff.b, aff.q)]})
      [] op \in {"compose", "compose_prune"} -> ComposePieces(PF0, PG0)
      [] op \in {"add", "sub"} -> LiftPieces(op, PF0, PG0)
LawHistory == InHist =>
    /\ WellFormed(h)
    /\ CacheSound(h)
    /\ PwlEqUpToThin(PH0, HistExpected, D)

Step(o) == [op |-> o, rhs |-> <<>>, aff |-> [m |-> <<>>, b |-> <<>>, q |-> 1], rhs_elim |-> FALSE]
StepG(o) == [op |-> o, rhs |-> ScriptOf(g'.abs, K, "dfs"), aff |-> [m |-> <<>>, b |-> <<>>, q |-> 1]] @@ [rhs_elim |-> FALSE]
HistorySteps ==
    CASE op' = "eliminate" -> <<Step("eliminate")>>
      [] op' = "compose_prune" -> <<StepG("compose_prune")>>
      [] op' = "elim_compose_elim" -> <<Step("eliminate"), StepG("compose"), Step("eliminate")>>
      [] op' = "elim_add" -> <<Step("eliminate"), StepG("add")>>
      [] op' = "elim_sub" -> <<Step("eliminate"), StepG("sub")>>
      [] op' = "compose_rhs_elim" -> <<[rhs_elim |-> TRUE] @@ StepG("compose"), Step("eliminate")>>
      [] op' = "add_rhs_elim" -> <<[rhs_elim |-> TRUE] @@ StepG("add"), Step("eliminate")>>
EmitHist ==
    (EMIT /\ MODE = "history" /\ stage' \in {"h1", "h2", "h3", "h4"}) =>
        PrintT("SCRIPT " \o ToJson([fam |-> "afftree", k |-> K, q |-> 1, mode |-> "history", lhs |-> ScriptOf(hist'.init, K, "dfs"),
                                     steps |-> hist'.steps, faults |-> <<>>, all |-> FALSE, exp |-> [root |-> h'.root, nodes |-> ObsSeq(h')]]))
Emit ==
    EmitHist /\
    (EMIT /\ stage' = "done") =>
        IF MODE = "history" THEN TRUE
        ELSE IF MODE = "format" THEN PrintT("SCRIPT " \o ToJson([fam |-> "format", kind |-> "tree", k |-> K, lhs |-> ScriptOf(f'.abs, K, f'.lay)]))
        ELSE IF MODE = "fault"
        THEN (sched' = <<>>) =>       \* one fault-sweep script per tree: the harness enumerates the plans over the real run's LP calls
             /\ PrintT("SCRIPT " \o ToJson([fam |-> "afftree", k |-> K, q |-> 1, mode |-> "history", lhs |-> ScriptOf(f'.abs, K, f'.lay),
                                          steps |-> <<Step("eliminate")>>, faults |-> <<>>, faultsweep |-> NG]))
             \* pruned composition with a ReLU on the first output component under the same fault sweeps (harness side only)
             /\ PrintT("SCRIPT " \o ToJson([fam |-> "afftree", k |-> K, q |-> 1, mode |-> "history", lhs |-> ScriptOf(f'.abs, K, f'.lay),
                                          steps |-> <<Step("eliminate"),
                                                      [op |-> "compose_prune", aff |-> [m |-> <<>>, b |-> <<>>, q |-> 1],
                                                       rhs |-> ScriptOf(Dec(P(<<1, 0>>, 0), <<Leaf(Aff(<<<<1, 0>>, <<0, 1>>>>, <<0, 0>>)),
                                                                                               Leaf(Aff(<<<<0, 0>>, <<0, 1>>>>, <<0, 0>>))>>), K, "dfs")]>>,
                                          faults |-> <<>>, faultsweep |-> NG]))
             \* the same with a partial operand (one-child decision): when every branch is pruned the pruning must be undone, faults or not
             /\ PrintT("SCRIPT " \o ToJson([fam |-> "afftree", k |-> K, q |-> 1, mode |-> "history", lhs |-> ScriptOf(f'.abs, K, f'.lay),
                                          steps |-> <<Step("eliminate"),
                                                      [op |-> "compose_prune", aff |-> [m |-> <<>>, b |-> <<>>, q |-> 1],
                                                       rhs |-> ScriptOf(Dec(P(<<1, 0>>, 0), <<Missing, Leaf(Aff(<<<<0, 0>>, <<0, 1>>>>, <<0, 0>>))>>), K, "dfs")]>>,
                                          faults |-> <<>>, faultsweep |-> NG]))
             \* no elimination before (every node still undecided) and an operand of depth 2: edges below the first grafted level
             /\ PrintT("SCRIPT " \o ToJson([fam |-> "afftree", k |-> K, q |-> 1, mode |-> "history", lhs |-> ScriptOf(f'.abs, K, f'.lay),
                                          steps |-> <<[op |-> "compose_prune", aff |-> [m |-> <<>>, b |-> <<>>, q |-> 1],
                                                       rhs |-> ScriptOf(Dec(P(<<1, 0>>, 0), <<Dec(P(<<0, 1>>, 1), <<Leaf(Aff(<<<<1, 0>>, <<0, 1>>>>, <<0, 0>>)),
                                                                                                                   Leaf(Aff(<<<<0, 1>>, <<1, 0>>>>, <<1, -2>>))>>),
                                                                                               Leaf(Aff(<<<<0, 0>>, <<0, 1>>>>, <<0, 0>>))>>), K, "dfs")]>>,
                                          faults |-> <<>>, faultsweep |-> NG]))
        ELSE IF MODE \in {"prune", "pruneg", "prunea", "prunedeep"}
        THEN PrintT("SCRIPT " \o ToJson([fam |-> "afftree", k |-> K, q |-> 1, mode |-> "history", lhs |-> ScriptOf(f'.abs, K, f'.lay),
                                          steps |-> HistorySteps, faults |-> <<>>, exp |-> [root |-> h'.root, nodes |-> ObsSeq(h')]]))
        ELSE
        PrintT("SCRIPT " \o ToJson(
            [fam |-> IF MODE = "regions" THEN "regions" ELSE "afftree", sched |-> sched', k |-> K, q |-> IF op' \in {"div", "div_aff"} THEN 12 ELSE 1, mode |-> MODE,
             lhs |-> ScriptOf(f'.abs, K, f'.lay),
             rhs |-> IF g' = None THEN <<>> ELSE ScriptOf(g'.abs, K, "dfs"),
             op |-> op', aff |-> IF aff' = None THEN [m |-> <<>>, b |-> <<>>, q |-> 1] ELSE aff',
             exp |-> [root |-> h'.root, nodes |-> ObsSeq(h')]]))
=============================================================================
