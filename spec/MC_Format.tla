------------------------------ MODULE MC_Format ------------------------------
(* Bounded instance for C19: matrices / biases from an alphabet with negative     *)
(* zero, fractions, ties in magnitude, all-zero rows, x every FormatOptions        *)
(* combination of small ranges x precisions x polytope / function view.  The L1     *)
(* token stream (Format.tla) is checked against the C19 formulas; every case and    *)
(* every tree of a small family is printed as a script for the harness.             *)
EXTENDS Format, TLC, Json

CONSTANTS LEVEL, EMIT
VARIABLES stage, cur
vars == <<stage, cur>>

V(n) == <<n, FALSE>>
NZ == <<0, TRUE>>                                                     \* -0.0
Den == 8
RowsA == {<<V(8)>>, <<V(0), V(0)>>, <<NZ, V(0)>>, <<V(2), V(-20)>>, <<V(8), V(8), V(-8)>>, <<V(1000), V(1), V(-3), V(0)>>,
          <<V(8), V(-8)>>, <<V(2), V(-3), V(1)>>,                          \* non-zero coefficients that cancel in sum
          <<V(2), V(-20), V(8), V(1), V(-3)>>, <<V(8), V(-8), V(2), V(2), NZ, V(-20)>>, <<V(0), V(0), V(0), V(0), V(0)>>}
BiasA == IF LEVEL >= 2 THEN {V(0), NZ, V(8), V(-20), V(1)} ELSE {V(0), NZ, V(-20)}
Bd(k, v) == [k |-> k, v |-> v]
NoSkip == <<Bd("inc", 1), Bd("exc", 0)>>
AxesSkips == {NoSkip, <<Bd("inc", 2), Bd("unb", 0)>>, <<Bd("inc", 0), Bd("exc", 1)>>, <<Bd("inc", 1), Bd("inc", 2)>>,
              <<Bd("exc", 0), Bd("unb", 0)>>, <<Bd("exc", 1), Bd("inc", 3)>>}            \* exclusive lower bounds
Opts == {[sort |-> so, simplify_zero |-> sz, simplify_taut |-> st, normalize |-> nm, axes_lo |-> ax[1], axes_hi |-> ax[2], rows_lo |-> NoSkip[1], rows_hi |-> NoSkip[2]] :
            so \in {0, 2, 5}, sz \in BOOLEAN, st \in BOOLEAN, nm \in BOOLEAN, ax \in AxesSkips}
Precs == IF LEVEL >= 2 THEN {0, 2, 3} ELSE {2, 3}
\* multi-row matrices for skip_rows
Mats == {<<<<V(8), V(0)>>, <<V(0), V(0)>>, <<V(2), V(-20)>>, <<V(-3), V(1)>>>>}
RowSkips == {NoSkip, <<Bd("inc", 1), Bd("unb", 0)>>, <<Bd("inc", 0), Bd("exc", 1)>>, <<Bd("inc", 1), Bd("inc", 2)>>, <<Bd("exc", 0), Bd("exc", 3)>>, <<Bd("unb", 0), Bd("exc", 1)>>}

Init == stage = "init" /\ cur = [none |-> TRUE]
OneRow == \E r \in RowsA, b \in BiasA, o \in Opts, p \in Precs, ap \in BOOLEAN :
    /\ stage = "init"
    /\ cur' = [rows |-> <<r>>, bias |-> <<b>>, opt |-> o, prec |-> p, aspoly |-> ap, tiny |-> FALSE] /\ stage' = "row"
ManyRows == \E m \in Mats, rs \in RowSkips, o \in {x \in Opts : x.axes_lo = NoSkip[1] /\ x.sort = 0}, ap \in BOOLEAN :
    /\ stage = "init"
    /\ cur' = [rows |-> m, bias |-> <<V(8), V(-20), NZ, V(1)>>, opt |-> [o EXCEPT !.rows_lo = rs[1], !.rows_hi = rs[2]], prec |-> 2, aspoly |-> ap, tiny |-> FALSE] /\ stage' = "row"
\* the same rows divided by 1e17 (all coefficients far below the machine epsilon, none zero unless zero before):
\* normalised polytope view, whose output depends only on ratios
TinyRow == \E r \in {x \in RowsA : ~AllZero(x)}, b \in BiasA, o \in {x \in Opts : x.normalize /\ x.axes_lo = NoSkip[1]}, p \in {2} :
    /\ stage = "init"
    /\ cur' = [rows |-> <<r>>, bias |-> <<b>>, opt |-> o, prec |-> p, aspoly |-> TRUE, tiny |-> TRUE] /\ stage' = "row"
Next == OneRow \/ ManyRows \/ TinyRow
Spec == Init /\ [][Next]_vars

\* C19 at design level: what the L1 model prints satisfies the faithfulness formulas
Faithful == stage = "row" => BlockOK(BlockToks(cur.rows, cur.bias, Den, cur.prec, cur.opt, cur.aspoly), cur.rows, cur.bias, Den, cur.prec, cur.opt, cur.aspoly)

Emit == (EMIT /\ stage' = "row") =>
    PrintT("SCRIPT " \o ToJson([fam |-> "format", kind |-> "rows", den |-> Den, rows |-> cur'.rows, bias |-> cur'.bias, options |-> cur'.opt, prec |-> cur'.prec,
                                as |-> IF cur'.aspoly THEN "poly" ELSE "func", tiny |-> cur'.tiny]))
=============================================================================
