------------------------------ MODULE MC_Iter ------------------------------
(* Bounded instance for C13: every arena reachable with <= CAP slots (built   *)
(* by add/remove/merge, so index layouts are non-contiguous), every start     *)
(* node, every cursor kind, every schedule of next / skip_subtree (a skip      *)
(* after any returned item, optionally repeated).  The cursor model (L1) is    *)
(* checked against the reference traversals (L0) and the size_hint bracket;    *)
(* every completed run and every arena is printed as a script for the harness. *)
EXTENDS Traversal, TLC, Json

CONSTANTS K, CAP, EMIT, DOUBLESKIP

VARIABLES t, hist, phase, kind, start, cur, sched, items, skips, lastItem

vars == <<t, hist, phase, kind, start, cur, sched, items, skips, lastItem>>
View == <<t, phase, kind, start, cur, sched, skips>>

Op(name, p, l, v) == [op |-> name, p |-> p, l |-> l, v |-> v]
Idxs == 0..(CAP - 1)
Labels == 0..(K - 1)
NoCur == [none |-> TRUE]

Init ==
    /\ t = AddRoot(EmptyTree, 0, K).t
    /\ hist = <<Op("add_root", 0, 0, 0)>>
    /\ phase = "build" /\ kind = "" /\ start = 0 /\ cur = NoCur /\ sched = <<>> /\ items = <<>> /\ skips = {} /\ lastItem = NoItem

Build(r, o) ==
    /\ phase = "build" /\ r.res = "ok"
    /\ t' = r.t /\ hist' = Append(hist, o)
    /\ UNCHANGED <<phase, kind, start, cur, sched, items, skips, lastItem>>
DoAdd == \E p \in Occ(t), l \in Labels : NextKey(t) < CAP /\ Build(AddChild(t, p, l, 0, K), Op("add_child", p, l, 0))
DoRemove == \E p \in Occ(t), l \in Labels : Build(TryRemoveChild(t, p, l, K), Op("try_remove_child", p, l, 0))
DoMerge == \E p \in Occ(t), l \in Labels : NumChildren(t.nodes[p]) = 1 /\ Build(MergeChild(t, p, l, K), Op("merge_child", p, l, 0))

Begin == \E kd \in {"dfs", "bfs", "edge"}, s \in Occ(t) :
    /\ phase = "build"
    /\ phase' = "run" /\ kind' = kd /\ start' = s /\ cur' = NewCursor(kd, t, s)
    /\ sched' = <<>> /\ items' = <<>> /\ skips' = {} /\ lastItem' = NoItem
    /\ UNCHANGED <<t, hist>>

DoNext ==
    /\ phase = "run"
    /\ LET r == NextStep(t, cur) IN
        /\ cur' = r.c /\ lastItem' = r.item
        /\ items' = IF r.item.none THEN items ELSE Append(items, r.item)
        /\ sched' = Append(sched, "n")
        /\ phase' = IF r.item.none THEN "done" ELSE "run"
    /\ UNCHANGED <<t, hist, kind, start, skips>>

SkipsInRow == IF sched = <<>> THEN 0 ELSE IF sched[Len(sched)] # "s" THEN 0
              ELSE IF Len(sched) > 1 /\ sched[Len(sched) - 1] = "s" THEN 2 ELSE 1
DoSkip ==
    /\ phase = "run"
    /\ IF kind = "edge" THEN ~lastItem.none ELSE TRUE          \* DfsEdge: skip only after an item was returned
    /\ SkipsInRow < (IF DOUBLESKIP THEN 2 ELSE 1)
    /\ cur' = SkipStep(cur)
    /\ skips' = IF lastItem.none THEN skips ELSE skips \cup {ItemNode(kind, lastItem)}
    /\ sched' = Append(sched, "s")
    /\ UNCHANGED <<t, hist, phase, kind, start, items, lastItem>>

Next == DoAdd \/ DoRemove \/ DoMerge \/ Begin \/ DoNext \/ DoSkip
Spec == Init /\ [][Next]_vars

\* ------------------------------------------------------------------ properties (C13 at design level)
IsPrefixOf(s, r) == Len(s) <= Len(r) /\ \A i \in 1..Len(s) : s[i] = r[i]
\* the items produced so far are a prefix of the reference traversal with the skipped subtrees removed ...
ItemsArePrefix == phase \in {"run", "done"} => IsPrefixOf(items, Ref(kind, t, start, skips))
\* ... and the complete run yields exactly the reference
RunComplete == phase = "done" => items = Ref(kind, t, start, skips)
\* size_hint brackets the number of items a plain next() loop would still yield
Bracket == phase \in {"run", "done"} => cur.lb <= Remaining(t, cur) /\ Remaining(t, cur) <= cur.ub
\* the remaining count agrees with the reference: |Ref| - |items| when no further skip happens
RemainingIsRef == phase \in {"run", "done"} => Remaining(t, cur) = Len(Ref(kind, t, start, skips)) - Len(items)
TreeOK == StructInv(t)

Emit ==
    /\ (EMIT /\ phase' = "done") =>
           PrintT("SCRIPT " \o ToJson([fam |-> "iter", k |-> K, ops |-> hist', kind |-> kind', start |-> start', sched |-> sched']))
    /\ (EMIT /\ phase' = "build") =>
           PrintT("SCRIPT " \o ToJson([fam |-> "iter", k |-> K, ops |-> hist', kind |-> "metrics", start |-> 0, sched |-> <<>>]))
=============================================================================
