SPECIFICATION Spec
CONSTANTS
  MODE = "npz"
  N = 1
  EMIT = TRUE
VIEW View
INVARIANTS SchemaLaw NetLaw ArchLaw
ACTION_CONSTRAINT Emit
CHECK_DEADLOCK FALSE
