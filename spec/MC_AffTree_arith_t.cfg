SPECIFICATION Spec
CONSTANTS
  MODE = "arith"
  K = 2
  NF = 2
  NG = 2
  PF = "p2s"
  TF = "t22e"
  PG = "p2s"
  TG = "t22ds"
  LAYOUTS = {"dfs", "hole"}
  EMIT = TRUE
VIEW View
INVARIANTS LawArith ResultWellFormed
ACTION_CONSTRAINT Emit
CHECK_DEADLOCK FALSE
