SPECIFICATION Spec
CONSTANTS
  MODE = "arith"
  K = 2
  NF = 2
  NG = 2
  PF = "p2a"
  TF = "t22e"
  PG = "p2a"
  TG = "t22d"
  LAYOUTS = {"dfs", "hole"}
  EMIT = TRUE
VIEW View
INVARIANTS LawArith ResultWellFormed
ACTION_CONSTRAINT Emit
CHECK_DEADLOCK FALSE
