------------------------------- MODULE Format -------------------------------
(* Token-level model of linalg::impl_affineformat (write_float, write_lincomb,  *)
(* write_inequality, write_affcomb, write_poly / write_func) and the property     *)
(* formulas of C19 on token streams.  A value is <<n, neg0>> meaning n/den (or    *)
(* -0.0 when n = 0 and neg0).  A token is a record with field t in                 *)
(* {"num","var","leq","top","bot","ell","vell"}.                                   *)
EXTENDS Vec

Neg0(v) == v[1] < 0 \/ (v[1] = 0 /\ v[2])                        \* sign bit of the stored float
AbsN(v) == Abs(v[1])
AllZero(row) == \A i \in 1..Len(row) : row[i][1] = 0
MaxAbs(row) == LET RECURSIVE G(_) G(i) == IF i = 0 THEN 0 ELSE Max2(AbsN(row[i]), G(i - 1)) IN G(Len(row))
Pow10(p) == 10 ^ p

\* |value| printed with `dec` decimals equals the stored |n| / scale at that precision (half a unit in the last place)
NumMatches(tok, v, scale, prec) ==
    tok.t = "num" /\ tok.dec = prec /\ Abs(2 * tok.mag * scale - 2 * AbsN(v) * Pow10(prec)) <= scale
SignMatches(tok, v) == tok.neg = Neg0(v)

InRange(no, lo, hi) ==      \* (Bound, Bound).contains(no)
    /\ CASE lo.k = "inc" -> no >= lo.v [] lo.k = "exc" -> no > lo.v [] OTHER -> TRUE
    /\ CASE hi.k = "inc" -> no <= hi.v [] hi.k = "exc" -> no < hi.v [] OTHER -> TRUE

\* ---------------------------------------------------------------- parsing a lincomb token sequence into items
\* -> sequence of [k |-> "pair", num, idx] | [k |-> "ell"] ; or <<[k |-> "bad"]>>
RECURSIVE Items(_, _)
Items(toks, j) ==
    IF j > Len(toks) THEN <<>>
    ELSE IF toks[j].t = "ell" THEN <<[k |-> "ell"]>> \o Items(toks, j + 1)
    ELSE IF toks[j].t = "num" /\ j + 1 <= Len(toks) /\ toks[j + 1].t = "var" THEN <<[k |-> "pair", num |-> toks[j], idx |-> toks[j + 1].idx]>> \o Items(toks, j + 2)
    ELSE <<[k |-> "bad"]>>

\* C19 for one linear combination: row = stored coefficients, scale = common positive divisor (den or max |n| when normalised)
LincombOK(toks, row, scale, prec, opt) ==
    LET its == Items(toks, 1)
        pairs == SelectSeq(its, LAMBDA x : x.k = "pair")
        d == Len(row)
        sorted == opt.sort # 0 /\ opt.sort <= d
    IN /\ \A i \in 1..Len(its) : its[i].k # "bad"
       /\ \A i \in 1..Len(pairs) : /\ pairs[i].idx \in 0..(d - 1)
                                   /\ NumMatches(pairs[i].num, row[pairs[i].idx + 1], scale, prec)        \* the coefficient of exactly that variable
                                   /\ SignMatches(pairs[i].num, row[pairs[i].idx + 1])
       /\ \A i, j \in 1..Len(pairs) : i # j => pairs[i].idx # pairs[j].idx
       /\ (Len(pairs) < d => \E i \in 1..Len(its) : its[i].k = "ell")                                       \* nothing dropped silently
       /\ \A i \in 1..(Len(pairs) - 1) :
            IF sorted THEN AbsN(row[pairs[i].idx + 1]) >= AbsN(row[pairs[i + 1].idx + 1]) ELSE pairs[i].idx < pairs[i + 1].idx
WhyLincomb(toks, row, scale, prec, opt) ==
    LET its == Items(toks, 1)  pairs == SelectSeq(its, LAMBDA x : x.k = "pair")  d == Len(row) IN
    IF \E i \in 1..Len(its) : its[i].k = "bad" THEN "syntax"
    ELSE IF \E i \in 1..Len(pairs) : pairs[i].idx \notin 0..(d - 1) \/ ~NumMatches(pairs[i].num, row[pairs[i].idx + 1], scale, prec) THEN "coefficient-index"
    ELSE IF \E i \in 1..Len(pairs) : ~SignMatches(pairs[i].num, row[pairs[i].idx + 1]) THEN "sign"
    ELSE IF Len(pairs) < d /\ ~\E i \in 1..Len(its) : its[i].k = "ell" THEN "silently-dropped"
    ELSE "order"

SplitAt(toks, t) == LET pos == {i \in 1..Len(toks) : toks[i].t = t} IN IF pos = {} THEN 0 ELSE CHOOSE i \in pos : \A j \in pos : i <= j

\* one displayed row of a polytope: lincomb <= bias, or a truth constant for an all-zero row
IneqOK(toks, row, bias, den, prec, opt) ==
    IF opt.simplify_taut /\ AllZero(row)
    THEN toks = <<[t |-> IF bias[1] >= 0 THEN "top" ELSE "bot"]>>
    ELSE LET scale == IF opt.normalize /\ ~AllZero(row) THEN MaxAbs(row) ELSE den
             k == SplitAt(toks, "leq")
         IN /\ k > 0 /\ k = Len(toks) - 1
            /\ LincombOK(SubSeq(toks, 1, k - 1), row, scale, prec, opt)
            /\ NumMatches(toks[Len(toks)], bias, scale, prec) /\ SignMatches(toks[Len(toks)], bias)
\* one displayed row of a function: bias first, then the linear combination (omitted when all zero and simplify_zero)
AffcombOK(toks, row, bias, den, prec, opt) ==
    /\ Len(toks) >= 1 /\ NumMatches(toks[1], bias, den, prec) /\ SignMatches(toks[1], bias)
    /\ IF opt.simplify_zero /\ AllZero(row) THEN Len(toks) = 1 ELSE LincombOK(Tail(toks), row, den, prec, opt)

\* rows: every row is displayed in order or covered by a vertical ellipsis line
RECURSIVE RowsOK(_, _, _, _, _, _, _, _)
RowsOK(lines, j, rows, bias, i, den, s, aspoly) ==
    IF i > Len(rows) THEN j > Len(lines) \/ (j = Len(lines) /\ lines[j] = <<[t |-> "vell"]>> /\ s.sawskip)
    ELSE IF j <= Len(lines) /\ lines[j] = <<[t |-> "vell"]>> THEN RowsOK(lines, j + 1, rows, bias, i, den, [s EXCEPT !.vell = TRUE], aspoly)
    ELSE LET shown == j <= Len(lines) /\ (IF aspoly THEN IneqOK(lines[j], rows[i], bias[i], den, s.prec, s.opt) ELSE AffcombOK(lines[j], rows[i], bias[i], den, s.prec, s.opt))
         IN IF shown THEN RowsOK(lines, j + 1, rows, bias, i + 1, den, s, aspoly)
            ELSE s.vell /\ RowsOK(lines, j, rows, bias, i + 1, den, [s EXCEPT !.sawskip = TRUE], aspoly)      \* row omitted: must be covered by an ellipsis
BlockOK(lines, rows, bias, den, prec, opt, aspoly) ==
    RowsOK(lines, 1, rows, bias, 1, den, [prec |-> prec, opt |-> opt, vell |-> FALSE, sawskip |-> FALSE], aspoly)

\* ---------------------------------------------------------------- L1: the exact token stream the code produces
RoundDiv(a, b) ==            \* a / b rounded to nearest, ties to even (a, b > 0 or a = 0)
    LET qd == a \div b  r == a % b IN IF 2 * r > b THEN qd + 1 ELSE IF 2 * r < b THEN qd ELSE (IF qd % 2 = 0 THEN qd ELSE qd + 1)
NumTok(v, scale, prec) == [t |-> "num", neg |-> Neg0(v), mag |-> RoundDiv(AbsN(v) * Pow10(prec), scale), dec |-> prec]
\* stable order by decreasing |value| (the code uses an unstable sort: ties may come in any order)
SortDesc(row) ==
    LET RECURSIVE G(_)
        G(S) == IF S = {} THEN <<>> ELSE LET m == CHOOSE i \in S : \A j \in S : AbsN(row[i]) > AbsN(row[j]) \/ (AbsN(row[i]) = AbsN(row[j]) /\ i <= j) IN <<m>> \o G(S \ {m})
    IN G(1..Len(row))
LincombToks(row, scale, prec, opt) ==
    LET d == Len(row)
        order == IF opt.sort # 0 /\ opt.sort <= d THEN SortDesc(row) ELSE [i \in 1..d |-> i]
        RECURSIVE G(_, _)
        G(no, first) == IF no > d THEN <<>>
                        ELSE IF InRange(no - 1, opt.axes_lo, opt.axes_hi) THEN (IF first THEN <<[t |-> "ell"]>> ELSE <<>>) \o G(no + 1, FALSE)
                        ELSE <<NumTok(row[order[no]], scale, prec), [t |-> "var", idx |-> order[no] - 1]>> \o G(no + 1, first)
    IN G(1, TRUE)
IneqToks(row, bias, den, prec, opt) ==
    IF opt.simplify_taut /\ AllZero(row) THEN <<[t |-> IF bias[1] >= 0 THEN "top" ELSE "bot"]>>
    ELSE LET scale == IF opt.normalize /\ ~AllZero(row) THEN MaxAbs(row) ELSE den
         IN LincombToks(row, scale, prec, opt) \o <<[t |-> "leq"], NumTok(bias, scale, prec)>>
AffcombToks(row, bias, den, prec, opt) ==
    <<NumTok(bias, den, prec)>> \o (IF opt.simplify_zero /\ AllZero(row) THEN <<>> ELSE LincombToks(row, den, prec, opt))
BlockToks(rows, bias, den, prec, opt, aspoly) ==
    LET RECURSIVE G(_, _)
        G(i, first) == IF i > Len(rows) THEN <<>>
                       ELSE IF InRange(i - 1, opt.rows_lo, opt.rows_hi) THEN (IF first THEN <<<<[t |-> "vell"]>>>> ELSE <<>>) \o G(i + 1, FALSE)
                       ELSE <<IF aspoly THEN IneqToks(rows[i], bias[i], den, prec, opt) ELSE AffcombToks(rows[i], bias[i], den, prec, opt)>> \o G(i + 1, first)
    IN G(1, TRUE)
=============================================================================
