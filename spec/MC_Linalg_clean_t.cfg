SPECIFICATION Spec
CONSTANTS
  MODE = "clean"
  NP = 3
  EMIT = TRUE
VIEW View
INVARIANTS CtorOK
ACTION_CONSTRAINT Emit
CHECK_DEADLOCK FALSE
