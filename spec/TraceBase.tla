----------------------------- MODULE TraceBase -----------------------------
(* Shared skeleton of the resynchronising trace validators.                  *)
(* Rec is the recorded implementation trace (ndjson, one event per line).    *)
(* A validator consumes one event per step; a property formula that is false  *)
(* on the recorded (pre, args, post) prints a VERDICT line and validation     *)
(* continues from the recorded post-state, so one defect never hides the rest *)
(* of the trace.  Disagreement with the L1 model alone prints DRIFT.          *)
EXTENDS Integers, Sequences, TLC, Json, IOUtils

Rec == ndJsonDeserialize(IOEnv.TRACE)

\* report helpers: always TRUE so that they can be conjoined
Verdict(prop, e, what, sig) ==
    PrintT("VERDICT " \o ToJson([property |-> prop, sc |-> e.sc, what |-> what, sig |-> sig]))
Drift(e, what) == PrintT("DRIFT " \o ToJson([sc |-> e.sc, what |-> what]))
Note(tag, e, what) == PrintT(tag \o " " \o ToJson([sc |-> e.sc, what |-> what]))

\* Check(cond, report): evaluates to TRUE; prints the report when cond is FALSE
Require(cond, report) == IF cond THEN TRUE ELSE report
=============================================================================
