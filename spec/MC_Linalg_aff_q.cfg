SPECIFICATION Spec
CONSTANTS
  MODE = "aff"
  NP = 0
  EMIT = TRUE
VIEW View
INVARIANTS ComposeLaw AddLaw
ACTION_CONSTRAINT Emit
CHECK_DEADLOCK FALSE
