-------------------------------- MODULE Pwl --------------------------------
(* L0 denotation of an AffTree: a partial piece-wise affine function given as *)
(* a finite set of pieces [cons : set of FM constraints, out : affine | UNDEF] *)
(* and the exact operators on such piece sets (composition, lifting, equality) *)
(* An AffTree state is a record                                                *)
(*   [root, dim, k, nodes : [Idx -> node]]                                      *)
(*   node = [p, ch : Seq(K), leaf, m : rows, b : bias, q : scale, st, w, ex]    *)
(* Numbers are integers scaled by the node's q (fixed point, q >= 1).          *)
EXTENDS FM

NONE == -1
U == [u |-> TRUE, m |-> <<>>, b |-> <<>>, q |-> 1]            \* "undefined" output (a record: TLC cannot compare records with strings)
Out(m, b, q) == [u |-> FALSE, m |-> m, b |-> b, q |-> q]

Occ(t) == DOMAIN t.nodes
Pow2(n) == 2 ^ n
BitSet(lab, i) == (lab \div Pow2(i - 1)) % 2 = 1           \* bit i-1 of the 0-based label

\* label bit i set <=> row i satisfied (m_i . x <= b_i); otherwise m_i . x > b_i   (evaluate_decision)
ConsOf(nd, lab) ==
    IF lab >= Pow2(Len(nd.m)) THEN {Le(ZeroVec(Len(nd.m[1])), -1)}        \* a label the predicate cannot produce: no input
    ELSE {IF BitSet(lab, i) THEN Le(nd.m[i], nd.b[i]) ELSE Lt(Neg(nd.m[i]), -nd.b[i]) : i \in 1..Len(nd.m)}
\* closed version of the same half-spaces, as PolyhedraGen / polyhedral_path_characterization report them
\* a label the predicate cannot produce (lab >= 2^rows) is taken by no input: the empty half-space 0 <= -1
ClosedConsOf(nd, lab) ==
    IF lab >= Pow2(Len(nd.m)) THEN {Le(ZeroVec(Len(nd.m[1])), -1)}
    ELSE {IF BitSet(lab, i) THEN Le(nd.m[i], nd.b[i]) ELSE Le(Neg(nd.m[i]), -nd.b[i]) : i \in 1..Len(nd.m)}
ReachableLabels(nd, K) == {lab \in 0..(K - 1) : lab < Pow2(Len(nd.m))}

RECURSIVE PiecesFrom(_, _, _)
PiecesFrom(t, i, C) ==
    LET nd == t.nodes[i] IN
    IF nd.leaf THEN {[cons |-> C, out |-> Out(nd.m, nd.b, nd.q), node |-> i]}
    ELSE UNION {IF nd.ch[lab + 1] = NONE
                THEN {[cons |-> C \cup ConsOf(nd, lab), out |-> U, node |-> i]}
                ELSE PiecesFrom(t, nd.ch[lab + 1], C \cup ConsOf(nd, lab)) : lab \in ReachableLabels(nd, t.k)}
Pieces(t) == PiecesFrom(t, t.root, {})
Strip(F) == {[cons |-> p.cons, out |-> p.out] : p \in F}

\* ------------------------------------------------------------------ path regions
RECURSIVE PathOf(_, _)
\* sequence of <<node, label>> from the root to node i
PathOf(t, i) ==
    IF t.nodes[i].p = NONE THEN <<>>
    ELSE LET p == t.nodes[i].p
             l == CHOOSE s \in 1..Len(t.nodes[p].ch) : t.nodes[p].ch[s] = i
         IN Append(PathOf(t, p), <<p, l - 1>>)
RouteRegion(t, i) == UNION {ConsOf(t.nodes[pr[1]], pr[2]) : pr \in SeqToSet(PathOf(t, i))}
ClosedRegion(t, i) == UNION {ClosedConsOf(t.nodes[pr[1]], pr[2]) : pr \in SeqToSet(PathOf(t, i))}

\* ------------------------------------------------------------------ evaluation on a point xs/den
DecisionLabel(nd, xs, den) ==
    LET RECURSIVE G(_)
        G(i) == IF i > Len(nd.m) THEN 0
                ELSE (IF Dot(nd.m[i], xs) <= nd.b[i] * den THEN Pow2(i - 1) ELSE 0) + G(i + 1)
    IN G(1)
RECURSIVE FindTerminal(_, _, _, _, _)
\* -> [def, node, labels]
FindTerminal(t, i, xs, den, labs) ==
    LET nd == t.nodes[i] IN
    IF nd.leaf THEN [def |-> TRUE, node |-> i, labels |-> labs]
    ELSE LET lab == DecisionLabel(nd, xs, den)
             c == nd.ch[lab + 1]
         IN IF c = NONE THEN [def |-> FALSE, node |-> i, labels |-> Append(labs, lab)]
            ELSE FindTerminal(t, c, xs, den, Append(labs, lab))
\* value of an affine out at xs/den, as a vector scaled by q*den
ApplyOut(o, xs, den) == [r \in 1..Len(o.m) |-> Dot(o.m[r], xs) + o.b[r] * den]

\* ------------------------------------------------------------------ operators on outputs (scales multiply)
ComposeOut(g, f) ==                                            \* g after f
    IF g.u \/ f.u THEN U
    ELSE Out(MatMul(g.m, f.m), VAdd(MatVec(g.m, f.b), Scale(f.q, g.b)), g.q * f.q)
\* pull a constraint c on y (coefficients scaled by qc) back through y = f(x):  {x | c(f(x))}
Pull(c, f, qc) ==
    [a |-> RowTimesMat(c.a, f.m), b |-> f.q * c.b - Dot(c.a, f.b), s |-> c.s]

\* F then G
ComposePieces(F, G) ==
    UNION {IF p.out.u THEN {[cons |-> p.cons, out |-> U]}
           ELSE {[cons |-> p.cons \cup {Pull(c, p.out, 1) : c \in g.cons}, out |-> ComposeOut(g.out, p.out)] : g \in G}
           : p \in F}

\* coefficient-wise binary operators on outputs of equal scale handling: bring both to scale qa*qb
AddOut(a, b) == Out(MAdd(MScale(b.q, a.m), MScale(a.q, b.m)), VAdd(Scale(b.q, a.b), Scale(a.q, b.b)), a.q * b.q)
SubOut(a, b) == Out(MSub(MScale(b.q, a.m), MScale(a.q, b.m)), VSub(Scale(b.q, a.b), Scale(a.q, b.b)), a.q * b.q)
MulOut(a, b) == Out([i \in 1..Len(a.m) |-> [j \in 1..Len(a.m[i]) |-> a.m[i][j] * b.m[i][j]]],
                    [i \in 1..Len(a.b) |-> a.b[i] * b.b[i]], a.q * b.q)
NegOut(a) == IF a.u THEN U ELSE Out(MNeg(a.m), Neg(a.b), a.q)
\* coefficient-wise division, exact: L = lcm of the divisor's entries; entry = (a/qa) / (b/qb) = a*qb*(L/b) / (qa*L)
Lcm(x, y) == IF x = 0 \/ y = 0 THEN Max2(Abs(x), Abs(y)) ELSE (Abs(x) * Abs(y)) \div Gcd(Abs(x), Abs(y))
RECURSIVE LcmSeq(_, _)
LcmSeq(v, n) == IF n = 0 THEN 1 ELSE Lcm(v[n], LcmSeq(v, n - 1))
LcmAll(b) == LET RECURSIVE G(_) G(i) == IF i = 0 THEN LcmSeq(b.b, Len(b.b)) ELSE Lcm(LcmSeq(b.m[i], Len(b.m[i])), G(i - 1)) IN G(Len(b.m))
NoZero(b) == (\A i \in 1..Len(b.m) : \A j \in 1..Len(b.m[i]) : b.m[i][j] # 0) /\ \A i \in 1..Len(b.b) : b.b[i] # 0
DivOut(a, b) ==
    LET L == LcmAll(b) IN
    Out([i \in 1..Len(a.m) |-> [j \in 1..Len(a.m[i]) |-> a.m[i][j] * b.q * (L \div b.m[i][j])]],
        [i \in 1..Len(a.b) |-> a.b[i] * b.q * (L \div b.b[i])], a.q * L)
CoeffWise(op, a, b) ==
    CASE op = "add" -> AddOut(a, b) [] op = "sub" -> SubOut(a, b) [] op = "mul" -> MulOut(a, b) [] op = "div" -> DivOut(a, b)
LiftPieces(op, F, G) ==
    {[cons |-> p.cons \cup g.cons, out |-> IF p.out.u \/ g.out.u THEN U ELSE CoeffWise(op, p.out, g.out)] : p \in F, g \in G}

\* ------------------------------------------------------------------ equality of piece-wise functions, decided by FM
\* row r of o1 and o2 differ somewhere on C
RowDiffers(o1, o2, r, C, d) ==
    LET da == VSub(Scale(o2.q, o1.m[r]), Scale(o1.q, o2.m[r]))
        db == o2.q * o1.b[r] - o1.q * o2.b[r]
    IN IF IsZero(da) /\ db = 0 THEN FALSE
       ELSE Feas(C \cup {Lt(Neg(da), db)}, d) \/ Feas(C \cup {Lt(da, -db)}, d)
SameOn(o1, o2, C, d) ==
    IF o1.u \/ o2.u THEN o1.u = o2.u
    ELSE Len(o1.m) = Len(o2.m) /\ \A r \in 1..Len(o1.m) : ~RowDiffers(o1, o2, r, C, d)
\* pairs of pieces on whose common (non-empty) region the two functions differ
DiffPairs(F, G, d) ==
    {<<p, g>> \in F \X G : LET C == p.cons \cup g.cons IN Feas(C, d) /\ ~SameOn(p.out, g.out, C, d)}
PwlEq(F, G, d) == DiffPairs(F, G, d) = {}
\* every point of R^d is covered by some piece of F (pieces of a tree always cover; used for L0 constructions)
\* pruning variant: differences are tolerated only where the common region has empty interior (thin)
PwlEqUpToThin(F, G, d) ==
    \A pr \in DiffPairs(F, G, d) : ~HasInterior(Closed(pr[1].cons \cup pr[2].cons), d)

\* ------------------------------------------------------------------ well-formedness (C04)
OutDims(t) == {Len(t.nodes[i].m) : i \in {j \in Occ(t) : t.nodes[j].leaf}}
NodeDimsOK(t) == \A i \in Occ(t) : \A r \in 1..Len(t.nodes[i].m) : Len(t.nodes[i].m[r]) = t.dim
DecisionRowsOK(t) == \A i \in Occ(t) : ~t.nodes[i].leaf => Len(t.nodes[i].m) >= 1 /\ Pow2(Len(t.nodes[i].m)) <= t.k
LeafIffNoChildren(t) == \A i \in Occ(t) : t.nodes[i].leaf <=> \A l \in 1..Len(t.nodes[i].ch) : t.nodes[i].ch[l] = NONE

\* ------------------------------------------------------------------ slices
\* restriction of pieces to the slice {x | x_i = ref_i for the axes that are not kept}: functions of the kept coordinates
KeepIdx(mask) == SelectSeq([i \in 1..Len(mask) |-> i], LAMBDA i : mask[i])
FixSum(a, mask, ref) == LET RECURSIVE G(_) G(i) == IF i = 0 THEN 0 ELSE (IF mask[i] THEN 0 ELSE a[i] * ref[i]) + G(i - 1) IN G(Len(mask))
Restrict(v, ks) == [j \in 1..Len(ks) |-> v[ks[j]]]
SlicePieces(F, mask, ref) ==
    LET ks == KeepIdx(mask) IN
    {[cons |-> {[a |-> Restrict(c.a, ks), b |-> c.b - FixSum(c.a, mask, ref), s |-> c.s] : c \in p.cons},
      out |-> IF p.out.u THEN U
              ELSE Out([r \in 1..Len(p.out.m) |-> Restrict(p.out.m[r], ks)],
                       [r \in 1..Len(p.out.m) |-> p.out.b[r] + FixSum(p.out.m[r], mask, ref)], p.out.q)] : p \in F}
=============================================================================
