SPECIFICATION Spec
CONSTANTS
  MODE = "compose"
  K = 4
  NF = 1
  NG = 1
  PF = "pp2"
  TF = "t22a"
  PG = "pp2"
  TG = "t22a"
  LAYOUTS = {"dfs"}
  EMIT = TRUE
VIEW View
INVARIANTS LawCompose IndicesKept ResultWellFormed
ACTION_CONSTRAINT Emit
CHECK_DEADLOCK FALSE
