SPECIFICATION Spec
CONSTANTS
  MODE = "history"
  K = 2
  NF = 1
  NG = 2
  PF = "p1s"
  TF = "t12"
  PG = "p1s"
  TG = "t12"
  LAYOUTS = {"dfs"}
  EMIT = TRUE
VIEW View
INVARIANTS LawHistory
ACTION_CONSTRAINT Emit
CHECK_DEADLOCK FALSE
