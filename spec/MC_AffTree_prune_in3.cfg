SPECIFICATION Spec
CONSTANTS
  MODE = "prune"
  K = 2
  NF = 2
  NG = 0
  PF = "p3s"
  TF = "t23s"
  PG = "p1y"
  TG = "t11s"
  LAYOUTS = {"dfs"}
  EMIT = TRUE
VIEW View
INVARIANTS LawPrune LawCache LawEffective ResultWellFormed
ACTION_CONSTRAINT Emit
CHECK_DEADLOCK FALSE
