------------------------------ MODULE MC_Distill ------------------------------
(* Bounded instances for the distillation layer:                                  *)
(*   "schema"  (C17) every predefined tree for dims 1-4, every row / class and     *)
(*             parameter alphabet: L1 generator = textbook pieces (by FM)           *)
(*   "slice"   (C17) from_slice ; compose ; remove_axes = restriction to a slice    *)
(*   "distill" (C01) layer sequences x preconditions: L1 afftree_from_layers =      *)
(*             NetPieces (activation patterns, no trees)                            *)
(*   "arch"    (C18) Architecture builder call sequences, valid and invalid          *)
(*   "npz"     (C18) layer files in the npz dialect                                  *)
(* Every instance is printed as a script for the harness.                           *)
EXTENDS Schema, Json

CONSTANTS MODE, N, EMIT

VARIABLES stage, cur, hist
vars == <<stage, cur, hist>>
View == <<stage, cur>>
None == [none |-> TRUE]

\* ---------------------------------------------------------------- C17: specs
Dims == 1..N
BaseSpec(nm, d, r, q) == [name |-> nm, dim |-> d, row |-> r, q |-> q]
SchemaSpecs ==
    {BaseSpec("partial_ReLU", d, r, 1) : d \in Dims, r \in 0..(N - 1)}
    \cup {BaseSpec("partial_leaky_ReLU", d, r, 2) @@ [alpha |-> a] : d \in Dims, r \in 0..(N - 1), a \in {0, 1, 4, -2}}          \* alpha = 0, 1/2, 2, -1
    \cup {BaseSpec("partial_hard_tanh", d, r, 2) @@ [min |-> mm[1], max |-> mm[2]] : d \in Dims, r \in 0..(N - 1), mm \in {<<-2, 2>>, <<1, 3>>, <<-3, -3>>, <<0, 4>>}}
    \cup {BaseSpec("partial_hard_shrink", d, r, 2) @@ [lambda |-> la] : d \in Dims, r \in 0..(N - 1), la \in {1, 4, 0}}
    \cup {BaseSpec("partial_hard_sigmoid", d, r, 6) : d \in Dims, r \in 0..(N - 1)}
    \cup {BaseSpec("partial_threshold", d, r, 2) @@ [threshold |-> tv[1], value |-> tv[2]] : d \in Dims, r \in 0..(N - 1), tv \in {<<0, 0>>, <<1, 4>>, <<-2, -5>>, <<2, 2>>}}
    \cup {BaseSpec("argmax", d, 0, 1) : d \in 2..N}
    \cup {BaseSpec("class_characterization", d, 0, 1) @@ [clazz |-> c] : d \in 2..N, c \in 0..(N - 1)}
    \cup {BaseSpec("inf_norm", d, 0, 2) @@ [hasmin |-> b[1], hasmax |-> b[2], min |-> b[3], max |-> b[4]] : d \in Dims,
             b \in {<<TRUE, TRUE, -2, 2>>, <<TRUE, FALSE, 1, 0>>, <<FALSE, TRUE, 0, 3>>, <<TRUE, TRUE, 1, 1>>}}
    \cup {BaseSpec("new", d, 0, 1) : d \in Dims}
    \cup {BaseSpec("argmax", 4, 0, 1)} \cup {BaseSpec("class_characterization", 4, 0, 1) @@ [clazz |-> c] : c \in {1, 3}}      \* four components
ValidSpec(s) == s.row < s.dim /\ ("clazz" \in DOMAIN s => s.clazz < s.dim)
Rows2 == {<<<<1, 0>>, 1>>, <<<<0, 1>>, 0>>, <<<<-1, -1>>, 1>>, <<<<1, 1>>, 2>>, <<<<0, 0>>, 1>>, <<<<0, 0>>, -1>>, <<<<-1, 0>>, -1>>}
PolyOfRows(rs) == [m |-> [i \in 1..Len(rs) |-> rs[i][1]], b |-> [i \in 1..Len(rs) |-> rs[i][2]], q |-> 1, n |-> 2]
FromPolySpecs ==
    {BaseSpec("from_poly", 2, 0, 1) @@ [poly |-> p, t |-> Aff(<<<<0, 1>>, <<1, 0>>>>, <<1, -2>>), hasf |-> hf, f |-> Aff(<<<<2, 0>>, <<0, -1>>>>, <<0, 1>>)] :
        p \in {PolyOfRows(<<r>>) : r \in Rows2} \cup {PolyOfRows(<<r, s>>) : r \in Rows2, s \in Rows2} \cup {PolyOfRows(<<<<<<1, 0>>, 1>>, <<<<0, 1>>, 0>>, <<<<-1, -1>>, 1>>>>)},
        hf \in BOOLEAN}

\* ---------------------------------------------------------------- C01: networks
W(m, b) == [k |-> "linear", a |-> Aff(m, b)]
\* the third one puts the argmax tie of (relu(x - 1), 1 - x) exactly on the ReLU breakpoint x = 1
Lin12 == {W(<<<<1>>, <<-1>>>>, <<0, 1>>), W(<<<<2>>, <<1>>>>, <<-1, -1>>), W(<<<<1>>, <<-1>>>>, <<-1, 1>>)}
Lin22 == {W(<<<<1, -1>>, <<1, 1>>>>, <<0, -1>>), W(<<<<0, 1>>, <<-1, 0>>>>, <<1, 0>>), W(<<<<1, 0>>, <<1, 0>>>>, <<0, 0>>)}
Lin21 == {W(<<<<1, -1>>>>, <<0>>)}
Lin23 == {W(<<<<1, 0>>, <<0, 1>>, <<1, 1>>>>, <<0, 0, -1>>)}
ActKinds == {"relu", "leaky", "hard_tanh", "hard_sigmoid"}
ActLayer(kd, r) == CASE kd = "leaky" -> [k |-> "leaky", row |-> r, q |-> 2, alpha |-> 1]
                     [] OTHER -> [k |-> kd, row |-> r]
\* activation on all neurons / only neuron 0 / none
ActVariants(kd, width) == {[j \in 1..width |-> ActLayer(kd, j - 1)], <<ActLayer(kd, 0)>>}
Heads(width) == {<<>>} \cup (IF width >= 2 THEN {<<[k |-> "argmax"]>>} \cup {<<[k |-> "class_char", c |-> c]>> : c \in 0..(width - 1)} ELSE {})
Pres(d) == {[kind |-> "none"]} \cup
           (IF d = 1 THEN {[kind |-> "poly", poly |-> [m |-> <<<<1>>, <<-1>>>>, b |-> <<2, 1>>, q |-> 1, n |-> 1]],       \* -1 <= x <= 2
                           [kind |-> "poly", poly |-> [m |-> <<<<1>>, <<-1>>>>, b |-> <<0, -1>>, q |-> 1, n |-> 1]]}      \* empty
            ELSE {[kind |-> "poly", poly |-> [m |-> <<<<1, 0>>, <<0, -1>>>>, b |-> <<1, 0>>, q |-> 1, n |-> 2]],          \* x <= 1, y >= 0
                  [kind |-> "poly", poly |-> [m |-> <<<<1, 1>>, <<-1, -1>>>>, b |-> <<0, 0>>, q |-> 1, n |-> 2]]})        \* zero width: x + y = 0
\* network = first linear layer, activation, optional second block, optional head
Nets ==
    LET First == {<<1, l>> : l \in Lin12} \cup {<<2, l>> : l \in Lin22}
        \* one hidden block: every activation kind, all heads, all preconditions
        One == UNION {UNION {{[dim |-> fl[1], layers |-> <<fl[2]>> \o av \o hd, pre |-> pr] : hd \in Heads(2), pr \in Pres(fl[1])}
                             : av \in UNION {ActVariants(kd, 2) : kd \in ActKinds}} : fl \in First}
        \* two hidden blocks (N >= 2): ReLU / hard tanh first, then a second linear layer with or without a ReLU
        Two == IF N < 2 THEN {}
               ELSE UNION {UNION {UNION {{[dim |-> fl[1], layers |-> <<fl[2]>> \o av \o <<l2>> \o av2 \o hd, pre |-> pr] :
                                             hd \in Heads(Len(l2.a.m)), pr \in {[kind |-> "none"]} \cup {CHOOSE x \in Pres(fl[1]) : x.kind = "poly"}}
                                         : l2 \in {CHOOSE x \in Lin22 : TRUE} \cup Lin21 \cup Lin23, av2 \in {<<>>, <<ActLayer("relu", 0)>>}}
                                  : av \in ActVariants("relu", 2) \cup {[j \in 1..2 |-> ActLayer("hard_tanh", j - 1)]}}
                           : fl \in First}
        \* the same activation kind twice with different parameters (state carried from one layer to the next must not leak):
        \* leaky ReLU with slopes a1 then a2 (halves; 0 = plain ReLU) around a second linear layer, or twice in a row on neuron 0
        Leaky(r, a) == [k |-> "leaky", row |-> r, q |-> 2, alpha |-> a]
        Slopes == {<<1, 4>>, <<4, 1>>, <<1, 0>>, <<0, 1>>, <<-2, 1>>}          \* -2: slope -1 (|x| on the negative side)
        Twice == UNION {UNION {{[dim |-> fl[1], layers |-> <<fl[2], Leaky(0, sl[1]), CHOOSE x \in Lin22 : TRUE, Leaky(0, sl[2])>> \o hd, pre |-> [kind |-> "none"]]
                                  : hd \in {<<>>, <<[k |-> "argmax"]>>}}
                                \cup {[dim |-> fl[1], layers |-> <<fl[2], Leaky(0, sl[1]), Leaky(0, sl[2])>>, pre |-> [kind |-> "none"]]}
                                : sl \in Slopes} : fl \in First}
        \* a three-neuron first layer (neuron index 2, three-way argmax, class 2) also in the quick instance
        Relu3 == [j \in 1..3 |-> ActLayer("relu", j - 1)]
        Wide == {[dim |-> 2, layers |-> <<CHOOSE x \in Lin23 : TRUE>> \o av \o hd, pre |-> [kind |-> "none"]]
                    : av \in {Relu3, <<ActLayer("relu", 2)>>, <<ActLayer("leaky", 2)>>, <<ActLayer("hard_tanh", 2)>>},
                      hd \in {<<>>, <<[k |-> "argmax"]>>} \cup {<<[k |-> "class_char", c |-> c]>> : c \in 0..2}}
        \* linear layers directly after one another (no activation in between): non-commuting square maps and changing widths
        LinLin == UNION {{[dim |-> fl[1], layers |-> <<fl[2], l2>> \o tl, pre |-> [kind |-> "none"]]
                            : l2 \in Lin22 \cup Lin21 \cup Lin23, tl \in {<<>>, <<ActLayer("relu", 0)>>}} : fl \in First}
                  \cup {[dim |-> fl[1], layers |-> <<fl[2], ActLayer("relu", 0), l2, l3, [k |-> "argmax"]>>, pre |-> [kind |-> "none"]]
                            : fl \in First, l2 \in {CHOOSE x \in Lin23 : TRUE}, l3 \in {W(<<<<1, 0, -1>>, <<0, 2, 1>>>>, <<0, 1>>)}}
        \* a head directly behind the first linear layer (ties of the head on the boundary of the precondition), and the same
        \* activation on the same neuron before and after a second linear layer
        PreDiag == [kind |-> "poly", poly |-> [m |-> <<<<1, -1>>>>, b |-> <<0>>, q |-> 1, n |-> 2]]                                    \* x <= y
        Bare == UNION {{[dim |-> fl[1], layers |-> <<fl[2]>> \o hd, pre |-> pr] : hd \in Heads(2) \ {<<>>}, pr \in Pres(fl[1]) \cup (IF fl[1] = 2 THEN {PreDiag} ELSE {})}
                       : fl \in First \cup {<<2, W(<<<<1, 0>>, <<0, 1>>>>, <<0, 0>>)>>}}
        Again == UNION {{[dim |-> fl[1], layers |-> <<fl[2], ActLayer(kd, 0), CHOOSE x \in Lin22 : TRUE, ActLayer(kd, 0)>>, pre |-> [kind |-> "none"]]
                            : kd \in {"relu", "hard_tanh"}} : fl \in First}
        \* linear layers only, under a precondition (the tree must stay undefined outside it)
        LinPre == UNION {{[dim |-> fl[1], layers |-> <<fl[2]>> \o tl, pre |-> pr] : tl \in {<<>>, <<CHOOSE x \in Lin22 : TRUE>>}, pr \in Pres(fl[1]) \ {[kind |-> "none"]}} : fl \in First}
    IN One \cup Two \cup Twice \cup Wide \cup LinLin \cup Bare \cup Again \cup LinPre

\* ---------------------------------------------------------------- C18: builder calls
Call(nm, args) == [call |-> nm] @@ args
LinCalls == {Call("linear", [a |-> Aff(m, b)]) : m \in {<<<<1, -1>>, <<1, 1>>>>, <<<<1, 0>>>>, <<<<1>>, <<-1>>>>, <<<<2>>>>}, b \in {<<0>>}} 
FixBias(c) == [c EXCEPT !.a.b = [i \in 1..Len(c.a.m) |-> IF i = 1 THEN 1 ELSE -1]]
Calls == {FixBias(c) : c \in LinCalls}
         \cup {Call(nm, [idx |-> i]) : nm \in {"partial_relu", "partial_hard_tanh", "partial_hard_sigmoid", "partial_leaky_relu", "partial_leaky_relu_one"}, i \in 0..2}
         \cup {Call(nm, [idx |-> 0]) : nm \in {"relu", "leaky_relu", "hard_tanh", "hard_sigmoid", "argmax"}}
\* the specification of the builder: accepted iff compatible with the current output dimension; shape after the call
Accepts(shape, c) ==
    CASE c.call = "linear" -> Cols(c.a.m) = shape
      [] c.call \in {"partial_relu", "partial_hard_tanh", "partial_hard_sigmoid", "partial_leaky_relu", "partial_leaky_relu_one"} -> c.idx < shape
      [] c.call = "argmax" -> shape >= 2
      [] OTHER -> TRUE
ShapeAfter(shape, c) == IF ~Accepts(shape, c) THEN shape ELSE CASE c.call = "linear" -> Len(c.a.m) [] c.call = "argmax" -> 1 [] OTHER -> shape
\* layers appended by an accepted call
LayersOf(shape, c) ==
    CASE c.call = "linear" -> <<[k |-> "linear", a |-> c.a]>>
      [] c.call = "partial_relu" -> <<[k |-> "relu", row |-> c.idx]>>
      [] c.call = "relu" -> [j \in 1..shape |-> [k |-> "relu", row |-> j - 1]]
      [] c.call = "partial_leaky_relu" -> <<ActLayer("leaky", c.idx)>>
      [] c.call = "partial_leaky_relu_one" -> <<[k |-> "leaky", row |-> c.idx, q |-> 2, alpha |-> 2]>>          \* slope exactly 1
      [] c.call = "leaky_relu" -> [j \in 1..shape |-> ActLayer("leaky", j - 1)]
      [] c.call = "partial_hard_tanh" -> <<[k |-> "hard_tanh", row |-> c.idx]>>
      [] c.call = "hard_tanh" -> [j \in 1..shape |-> [k |-> "hard_tanh", row |-> j - 1]]
      [] c.call = "partial_hard_sigmoid" -> <<[k |-> "hard_sigmoid", row |-> c.idx]>>
      [] c.call = "hard_sigmoid" -> [j \in 1..shape |-> [k |-> "hard_sigmoid", row |-> j - 1]]
      [] c.call = "argmax" -> <<[k |-> "argmax"]>>

\* ---------------------------------------------------------------- npz dialect
Pad3(i) == IF i < 10 THEN "00" \o ToString(i) ELSE "0" \o ToString(i)
NpzNets == {<<>>} \cup {<<x>> : x \in {"L12", "L22"}} \cup {<<x, y>> : x \in {"L12", "L22"}, y \in {"relu", "hard_tanh", "hard_sigmoid", "L21", "L22"}}
           \cup {<<x, y, z>> : x \in {"L12", "L22"}, y \in {"relu", "hard_tanh"}, z \in {"L21", "L23", "relu"}}
           \cup {<<"L22", "relu", "L23", w>> : w \in {"relu", "hard_sigmoid", "hard_tanh"}}
NpzMat(x) == CASE x = "L12" -> [m |-> <<<<1>>, <<-1>>>>, b |-> <<0, 1>>] [] x = "L22" -> [m |-> <<<<1, -1>>, <<1, 1>>>>, b |-> <<0, -1>>]
               [] x = "L21" -> [m |-> <<<<1, -1>>>>, b |-> <<2>>] [] x = "L23" -> [m |-> <<<<1, 0>>, <<0, 1>>, <<1, 1>>>>, b |-> <<0, 0, -1>>]
NpzEntries(net, ext, withLayers) ==
    LET E(i) == IF net[i] \in {"relu", "hard_tanh", "hard_sigmoid"}
                THEN <<[name |-> Pad3(i - 1) \o "." \o net[i] \o ext, kind |-> "marker", data |-> <<>>]>>
                \* bias first: members are found by name, not by their position relative to the weights
                ELSE <<[name |-> Pad3(i - 1) \o ".linear.bias" \o ext, kind |-> "bias", data |-> NpzMat(net[i]).b],
                       [name |-> Pad3(i - 1) \o ".linear.weights" \o ext, kind |-> "weights", data |-> NpzMat(net[i]).m]>>
        RECURSIVE G(_)
        G(i) == IF i > Len(net) THEN <<>> ELSE G(i + 1) \o E(i)             \* written in reverse archive order: read_layers must sort
    IN G(1) \o (IF withLayers THEN <<[name |-> Pad3(Len(net)) \o ".layers" \o ext, kind |-> "marker", data |-> <<>>]>> ELSE <<>>)

\* ---------------------------------------------------------------- machine
Init == stage = "init" /\ cur = None /\ hist = None
DoSchema == \E s \in SchemaSpecs \cup FromPolySpecs :
    /\ stage = "init" /\ MODE = "schema" /\ ValidSpec(s)
    /\ cur' = s /\ hist' = s /\ stage' = "s1"
SliceTrees == TreesN(2, PredSet("p2a"), TermSet("t22a"), 2)
\* direct: infeasible_elimination ; remove_axes (drops the masked coordinates, i.e. the slice at 0) ; infeasible_elimination -
\* the cached states of the first run must not survive the change of the input space
DoSlice == \E x \in SliceTrees, mk \in {<<TRUE, FALSE>>, <<FALSE, TRUE>>}, rv \in {0, 1, -2}, pr \in BOOLEAN, dr \in BOOLEAN :
    /\ stage = "init" /\ MODE = "slice"
    /\ (dr => rv = 0 /\ pr)
    /\ cur' = [tree |-> x, mask |-> mk, ref |-> rv, prune |-> pr, direct |-> dr] /\ hist' = cur' /\ stage' = "s1"
DoNet == \E nt \in Nets :
    /\ stage = "init" /\ MODE = "distill"
    /\ cur' = nt /\ hist' = nt /\ stage' = "n1"
ArchStart == \E d \in 1..2 :
    /\ stage = "init" /\ MODE = "arch"
    /\ cur' = [dim |-> d, shape |-> d, layers |-> <<>>, depth |-> 0] /\ hist' = [dim |-> d, calls |-> <<>>] /\ stage' = "a"
\* from the fourth call on only a small sub-alphabet (the bounded instance with N = 4 would otherwise have 150 000 behaviours)
CallsLate == {c \in Calls : c.call \in {"linear", "relu", "argmax"} \/ (c.call = "partial_relu" /\ c.idx = 1)}
ArchCall == \E c \in (IF MODE = "arch" /\ stage = "a" /\ cur.depth >= 3 THEN CallsLate ELSE Calls) :
    /\ stage = "a" /\ MODE = "arch" /\ cur.depth < N
    /\ cur' = [dim |-> cur.dim, shape |-> ShapeAfter(cur.shape, c), depth |-> cur.depth + 1,
               layers |-> IF Accepts(cur.shape, c) THEN cur.layers \o LayersOf(cur.shape, c) ELSE cur.layers]
    /\ hist' = [hist EXCEPT !.calls = Append(hist.calls, c)] /\ UNCHANGED stage
DoNpz == \E net \in NpzNets, ext \in {".npy"}, wl \in BOOLEAN :       \* entry names as numpy writes them (and as the shipped files have them)
    /\ stage = "init" /\ MODE = "npz"
    /\ cur' = [net |-> net, ext |-> ext, wl |-> wl] /\ hist' = cur' /\ stage' = "z1"
Next == DoSchema \/ DoSlice \/ DoNet \/ ArchStart \/ ArchCall \/ DoNpz
Spec == Init /\ [][Next]_vars

\* ---------------------------------------------------------------- properties at design level
\* C17: the generator tree denotes the textbook function everywhere (breakpoints and ties included)
SchemaLaw == (stage = "s1" /\ MODE = "schema") =>
    PwlEq(Strip(Pieces(BuildTree(SchemaTree(cur), 2, "dfs"))), Textbook(cur), cur.dim)
\* C01: distillation is faithful
NetLaw == (stage = "n1" /\ MODE = "distill") =>
    PwlEqUpToThin(Strip(Pieces(Distill(cur.layers, cur.pre, cur.dim))), NetPieces(cur.layers, cur.pre, cur.dim), cur.dim)
\* C18: the shape tracked by the builder specification is the output dimension of the accepted layers
RECURSIVE OutDimOf(_, _, _)
OutDimOf(layers, j, d) == IF j > Len(layers) THEN d ELSE OutDimOf(layers, j + 1, LayerOutDim(layers[j], d))
ArchLaw == (stage = "a" /\ MODE = "arch") => cur.shape = OutDimOf(cur.layers, 1, cur.dim)

Emit ==
    (EMIT /\ stage' # "init") =>
        CASE MODE = "schema" -> PrintT("SCRIPT " \o ToJson([fam |-> "schema", spec |-> hist']))
          [] MODE = "slice" -> PrintT("SCRIPT " \o ToJson([fam |-> "slice", q |-> 1, lhs |-> ScriptOf(hist'.tree, 2, "dfs"), mask |-> hist'.mask, direct |-> hist'.direct,
                                                            ref |-> <<hist'.ref, hist'.ref>>, prune |-> hist'.prune]))
          [] MODE = "distill" -> PrintT("SCRIPT " \o ToJson([fam |-> "distill", q |-> 12, dim |-> hist'.dim, layers |-> hist'.layers, pre |-> hist'.pre]))
          [] MODE = "arch" -> (hist'.calls # <<>> => PrintT("SCRIPT " \o ToJson([fam |-> "arch", q |-> 12, dim |-> hist'.dim, calls |-> hist'.calls])))
          [] MODE = "npz" -> PrintT("SCRIPT " \o ToJson([fam |-> "npz", q |-> 1, net |-> hist'.net, entries |-> NpzEntries(hist'.net, hist'.ext, hist'.wl)]))
=============================================================================
