SPECIFICATION Spec
CONSTANTS
  K = 2
  CAP = 4
  EMIT = TRUE
  DOUBLESKIP = TRUE
VIEW View
INVARIANTS ItemsArePrefix RunComplete Bracket RemainingIsRef TreeOK
ACTION_CONSTRAINT Emit
CHECK_DEADLOCK FALSE
