SPECIFICATION Spec
CONSTANTS
  K = 2
  CAP = 5
  EMIT = TRUE
  DOUBLESKIP = FALSE
VIEW View
INVARIANTS ItemsArePrefix RunComplete Bracket RemainingIsRef TreeOK
ACTION_CONSTRAINT Emit
CHECK_DEADLOCK FALSE
