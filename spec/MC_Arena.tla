------------------------------ MODULE MC_Arena ------------------------------
(* Bounded instance of ArenaTree: the complete reachable graph of arenas     *)
(* with at most CAP slab slots, every mutator with valid and invalid          *)
(* arguments.  Every generated transition is printed as a replay script for   *)
(* the Rust harness (ACTION_CONSTRAINT Emit); hist is a history variable       *)
(* hidden from the fingerprint by VIEW.                                       *)
EXTENDS ArenaTree, TLC, Json

CONSTANTS K, CAP, Vals, REROOT, EMIT

VARIABLES t, hist, out

vars == <<t, hist, out>>
View == t

Op(name, p, l, v) == [op |-> name, p |-> p, l |-> l, v |-> v]

Idxs == 0..CAP          \* CAP itself is never a valid index
Labels == 0..(K - 1)
CanInsert(s) == NextKey(s) < CAP

Init ==
    \E v \in Vals :
        /\ t = AddRoot(EmptyTree, v, K).t
        /\ hist = <<Op("add_root", 0, 0, v)>>
        /\ out = Ok(t, 0)

Step(r, o) == /\ t' = r.t /\ out' = r /\ hist' = Append(hist, o)

DoAddChild == \E p \in Idxs, l \in Labels, v \in Vals :
    /\ CanInsert(t)
    /\ Step(AddChild(t, p, l, v, K), Op("add_child", p, l, v))
DoTryRemove == \E p \in Idxs, l \in Labels :
    Step(TryRemoveChild(t, p, l, K), Op("try_remove_child", p, l, 0))
\* remove_child = try_remove_child + expect: generated only where it is documented not to panic (the child exists)
DoRemoveChild == \E p \in Idxs, l \in Labels :
    /\ p \in Occ(t) /\ t.nodes[p].ch[l + 1] # NONE
    /\ Step(TryRemoveChild(t, p, l, K), Op("remove_child", p, l, 0))
DoRemoveDesc == \E p \in Idxs :
    Step(RemoveAllDesc(t, p), Op("remove_all_descendants", p, 0, 0))
DoMerge == \E p \in Idxs, l \in Labels :
    /\ p \in Occ(t)                      \* vacant index: undocumented index panic, not generated
    /\ Step(MergeChild(t, p, l, K), Op("merge_child", p, l, 0))
DoUpdate == \E p \in Idxs, v \in Vals :
    /\ Step(UpdateNode(t, p, v), Op("update_node", p, 0, v))
DoReRoot == \E v \in Vals :
    /\ REROOT /\ CanInsert(t)
    /\ Step(AddRoot(t, v, K), Op("add_root", 0, 0, v))

Next == DoAddChild \/ DoTryRemove \/ DoRemoveChild \/ DoRemoveDesc \/ DoMerge \/ DoUpdate \/ DoReRoot

Spec == Init /\ [][Next]_vars

\* ------------------------------------------------------------------ properties (C12 at design level)
Rerooted == \E i \in 2..Len(hist) : hist[i].op = "add_root"
Inv == ~Rerooted => StructInv(t) /\ LenIsReachable(t, Cardinality(Occ(t)))
InvWeak == LinksMirror(t) /\ LeafFlags(t)                   \* also after re-rooting
SlabInv == /\ \A i \in 1..Len(t.free) : t.free[i] \notin Occ(t) /\ t.free[i] < t.slen
           /\ Occ(t) \cup SeqToSet(t.free) = 0..(t.slen - 1)
           /\ Len(t.free) = Cardinality(SeqToSet(t.free))
\* an error leaves the state unchanged; survivors keep index and value
ErrUnchanged == [][out'.res \in {"err", "panic"} => t' = t]_vars
Survivors == [][\A i \in Occ(t) \cap Occ(t') :
                   hist'[Len(hist')].op # "update_node" /\ hist'[Len(hist')].op # "add_child" /\ hist'[Len(hist')].op # "add_root"
                   => t'.nodes[i].v = t.nodes[i].v]_vars

Emit == EMIT => PrintT("SCRIPT " \o ToJson([fam |-> "arena", k |-> K, ops |-> hist',
                                           exp |-> [res |-> out'.res, ret |-> out'.ret]]))
=============================================================================
