SPECIFICATION Spec
INVARIANTS FeasAgreesWithGrid MinAgrees SubsetRefl
CHECK_DEADLOCK FALSE
