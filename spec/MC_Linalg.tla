------------------------------ MODULE MC_Linalg ------------------------------
(* Bounded "calculator" machine over affinitree::linalg: a register holds a       *)
(* polytope (or an affine function), actions are the library's constructors and    *)
(* transformations with arguments from small alphabets, so pipelines of operations *)
(* are explored and not only single calls.  The L1 definitions of Linalg.tla        *)
(* (what the code computes) are checked against the L0 definitions (the denoted     *)
(* set / function) by Fourier-Motzkin; every transition is printed as a script.     *)
EXTENDS Linalg, TLC, Json

CONSTANTS MODE,      \* "poly" | "clean" | "aff" | "lp" | "mirror"
          NP,        \* pipeline length bound (poly, clean) / row bound (lp)
          EMIT

VARIABLES stage, reg, prev, hist, last

vars == <<stage, reg, prev, hist, last>>
View == <<stage, reg, last>>
None == [none |-> TRUE]

\* ---------------------------------------------------------------- alphabets (dimension 2 unless stated)
Rows2 == {<<<<1, 0>>, 1>>, <<<<0, 1>>, 0>>, <<<<-1, -1>>, 1>>, <<<<1, 1>>, 2>>, <<<<0, 0>>, 1>>, <<<<0, 0>>, -1>>, <<<<2, -1>>, 0>>, <<<<0, 0>>, 0>>}
PolyOfRows(rs) == A([i \in 1..Len(rs) |-> rs[i][1]], [i \in 1..Len(rs) |-> rs[i][2]], 2)
Polys2 == {PolyOfRows(<<r>>) : r \in Rows2} \cup {PolyOfRows(<<r, s>>) : r \in Rows2, s \in Rows2 \ {<<<<0, 0>>, 1>>}}
SmallPolys2 == {PolyOfRows(<<<<<<1, 0>>, 1>>, <<<<0, 1>>, 0>>>>), PolyOfRows(<<<<<<-1, -1>>, 1>>>>), PolyOfRows(<<<<<<0, 0>>, -1>>>>)}
Vecs2 == {<<1, 0>>, <<-1, 2>>}
\* a swap with offset, a shear, a pure translation, a projection (drops y) and a constant map whose value (1, 0) lies on boundaries of Rows2
Affs22 == {A(<<<<0, 1>>, <<1, 0>>>>, <<1, -2>>, 2), A(<<<<2, 0>>, <<1, 1>>>>, <<0, 1>>, 2), A(<<<<1, 0>>, <<0, 1>>>>, <<1, -2>>, 2),
           A(<<<<1, 0>>, <<0, 0>>>>, <<0, 0>>, 2), A(<<<<0, 0>>, <<0, 0>>>>, <<1, 0>>, 2)}
\* invertible integer matrices with integer inverse: <<M, Minv>>
Unimod == {<<<<<<1, 1>>, <<0, 1>>>>, <<<<1, -1>>, <<0, 1>>>>>>, <<<<<<0, -1>>, <<1, 0>>>>, <<<<0, 1>>, <<-1, 0>>>>>>, <<<<<<1, 0>>, <<1, 1>>>>, <<<<1, 0>>, <<-1, 1>>>>>>}
Orth2 == {<<<<0, -1>>, <<1, 0>>>>, <<<<-1, 0>>, <<0, 1>>>>, <<<<0, 1>>, <<1, 0>>>>}
Bd(lo, hi, li, hif) == [lo |-> lo, hi |-> hi, loinf |-> li, hiinf |-> hif]
Bounds == {Bd(-1, 2, FALSE, FALSE), Bd(0, 0, FALSE, FALSE), Bd(0, 1, TRUE, FALSE), Bd(-2, 0, FALSE, TRUE), Bd(0, 0, TRUE, TRUE)}

Ctor(name, args) == [ctor |-> name] @@ args
Ctors ==
    {Ctor("rows", [p |-> p, dist_at |-> <<1, -3>>, dist_den |-> 2]) : p \in Polys2 \cup {PolyOfRows(<<<<<<3, 4>>, 5>>, <<<<0, -2>>, 1>>>>)}}
    \cup {Ctor("hypercube", [dim |-> d, r |-> r, q |-> q]) : d \in 1..3, r \in {1, 3}, q \in {1, 2}}
    \cup {Ctor("hyperrectangle", [bounds |-> <<b1, b2>>, q |-> 1]) : b1 \in Bounds, b2 \in Bounds}
    \cup {Ctor("axis_bounds", [dim |-> d, axis |-> a, bd |-> b, q |-> 1]) : d \in 2..3, a \in 0..1, b \in Bounds}
    \cup {Ctor("unbounded", [dim |-> d]) : d \in 1..3} \cup {Ctor("empty", [dim |-> d]) : d \in 1..3}
    \cup {Ctor("intersection_n_empty", [dim |-> d]) : d \in 1..2}
    \cup {Ctor("simplex", [dim |-> 3])}
    \cup {Ctor("cross_polytope", [dim |-> d]) : d \in 1..3}
    \cup {Ctor("from_normal", [normals |-> np[1], points |-> np[2]]) :
              np \in {<<<<<<1, 0>>, <<1, 1>>>>, <<<<1, 1>>, <<0, 2>>>>>>, <<<<<<0, -2>>>>, <<<<-1, 0>>>>>>, <<<<<<2, -1>>>>, <<<<1, 1>>>>>>}}

\* L1: what the constructor code builds
Build(c) ==
    CASE c.ctor = "rows" -> c.p
      [] c.ctor = "hypercube" -> AQ([i \in 1..(2 * c.dim) |-> IF i <= c.dim THEN Scale(c.q, UnitVec(c.dim, i)) ELSE Scale(-c.q, UnitVec(c.dim, i - c.dim))],
                                     [i \in 1..(2 * c.dim) |-> c.r], c.q, c.dim)
      [] c.ctor = "hyperrectangle" ->
            LET d == Len(c.bounds)
                RowLo(i) == IF c.bounds[i].loinf THEN <<ZeroVec(d), 1>> ELSE <<Neg(UnitVec(d, i)), -c.bounds[i].lo>>
                RowHi(i) == IF c.bounds[i].hiinf THEN <<ZeroVec(d), 1>> ELSE <<UnitVec(d, i), c.bounds[i].hi>>
            IN A([k \in 1..(2 * d) |-> IF k % 2 = 1 THEN RowLo((k + 1) \div 2)[1] ELSE RowHi(k \div 2)[1]],
                 [k \in 1..(2 * d) |-> IF k % 2 = 1 THEN RowLo((k + 1) \div 2)[2] ELSE RowHi(k \div 2)[2]], d)
      [] c.ctor = "axis_bounds" ->
            A(<<IF c.bd.loinf THEN ZeroVec(c.dim) ELSE Neg(UnitVec(c.dim, c.axis + 1)), IF c.bd.hiinf THEN ZeroVec(c.dim) ELSE UnitVec(c.dim, c.axis + 1)>>,
              <<IF c.bd.loinf THEN 1 ELSE -c.bd.lo, IF c.bd.hiinf THEN 1 ELSE c.bd.hi>>, c.dim)
      [] c.ctor \in {"unbounded", "intersection_n_empty"} -> A(<<ZeroVec(c.dim)>>, <<1>>, c.dim)
      [] c.ctor = "empty" -> A(<<ZeroVec(c.dim)>>, <<-1>>, c.dim)
      [] c.ctor = "simplex" -> A([i \in 1..4 |-> IF i = 4 THEN <<1, 1, 1>> ELSE [j \in 1..3 |-> IF i = j THEN -5 ELSE 1]], <<1, 1, 1, 1>>, 3)   \* dist = -(1 + 2 + 3)
      [] c.ctor = "cross_polytope" -> A([i \in 1..(2 ^ c.dim) |-> [j \in 1..c.dim |-> IF ((i - 1) \div (2 ^ (j - 1))) % 2 = 1 THEN -1 ELSE 1]],
                                        [i \in 1..(2 ^ c.dim) |-> 1], c.dim)
      [] c.ctor = "from_normal" -> A(MNeg(c.normals), [i \in 1..Len(c.normals) |-> -Dot(c.normals[i], c.points[i])], Cols(c.normals))
\* L0: the point set the documentation promises
Def(c) ==
    CASE c.ctor = "rows" -> Cons(c.p)
      [] c.ctor = "hypercube" -> HypercubeDef(c.dim, c.r, c.q)
      [] c.ctor = "hyperrectangle" -> RectDef(c.bounds, 1)
      [] c.ctor = "axis_bounds" -> AxisDef(c.dim, c.axis, c.bd, 1)
      [] c.ctor \in {"unbounded", "intersection_n_empty"} -> {}
      [] c.ctor = "empty" -> {Le(ZeroVec(c.dim), -1)}
      [] c.ctor = "cross_polytope" -> CrossDef(c.dim)
      [] c.ctor = "from_normal" -> FromNormalDef(c.normals, c.points)
      [] c.ctor = "simplex" -> Cons(Build(c))       \* checked through its vertices (SimplexOK)
\* a polytope with d + 1 rows is the simplex with the given vertices iff every row is tight at exactly d vertices and slack at the other
SimplexOK(p, d, s) ==
    LET Vs == SimplexVertices(d, s) IN
    /\ Len(p.m) = d + 1
    /\ \A i \in 1..Len(p.m) : /\ Cardinality({v \in Vs : Dot(p.m[i], v) = p.b[i] * d}) = d
                              /\ \A v \in Vs : Dot(p.m[i], v) <= p.b[i] * d
    /\ \A v, w \in Vs : v = w \/ Dot(VSub(v, w), VSub(v, w)) = 2 * d * d           \* edge length sqrt(2)

Step(name, args) == [op |-> name] @@ args
PolySteps ==
    {Step("translate", [d |-> v, q |-> 1]) : v \in Vecs2}
    \cup {Step("intersection", [p2 |-> p]) : p \in SmallPolys2}
    \cup {Step("intersection_n", [ps |-> <<p, r>>]) : p \in SmallPolys2, r \in {PolyOfRows(<<<<<<1, 1>>, 2>>>>)}}
    \* two operands in a row with the same normals and different right-hand sides
    \cup {Step("intersection_n", [ps |-> <<PolyOfRows(<<<<<<1, 0>>, 1>>, <<<<0, 1>>, 1>>>>), PolyOfRows(<<<<<<1, 0>>, 0>>, <<<<0, 1>>, 0>>>>)>>])}
    \cup {Step("apply_pre", [f |-> f]) : f \in Affs22}
    \cup {Step("apply_post", [m |-> u[1], minv |-> u[2], c |-> c]) : u \in Unimod, c \in {<<0, 0>>, <<1, -2>>}}
    \cup {Step("rotate", [r |-> r]) : r \in Orth2}
\* dimension 3
Vecs3 == {<<1, 0, -2>>}
Affs33 == {A(<<<<0, 1, 0>>, <<0, 0, 1>>, <<1, 0, 0>>>>, <<1, -2, 0>>, 3), A(<<<<1, 1, 0>>, <<0, 2, 0>>, <<0, 0, -1>>>>, <<0, 0, 1>>, 3)}
Unimod3 == {<<<<<<1, 1, 0>>, <<0, 1, 0>>, <<0, 0, 1>>>>, <<<<1, -1, 0>>, <<0, 1, 0>>, <<0, 0, 1>>>>>>,
            <<<<<<0, 0, 1>>, <<1, 0, 0>>, <<0, 1, 0>>>>, <<<<0, 1, 0>>, <<0, 0, 1>>, <<1, 0, 0>>>>>>}
Orth3 == {<<<<0, -1, 0>>, <<1, 0, 0>>, <<0, 0, 1>>>>, <<<<0, 0, 1>>, <<1, 0, 0>>, <<0, 1, 0>>>>}
PolySteps3 ==
    {Step("translate", [d |-> v, q |-> 1]) : v \in Vecs3}
    \cup {Step("intersection", [p2 |-> A(<<<<1, 1, 1>>>>, <<1>>, 3)])}
    \cup {Step("apply_pre", [f |-> f]) : f \in Affs33}
    \cup {Step("apply_post", [m |-> u[1], minv |-> u[2], c |-> c]) : u \in Unimod3, c \in {<<0, 0, 0>>, <<1, -2, 3>>}}
    \cup {Step("rotate", [r |-> r]) : r \in Orth3}
\* L1 result of a step
Do(p, s) ==
    CASE s.op = "translate" -> Translate(p, s.d, s.q)
      [] s.op = "intersection" -> Intersection(p, s.p2)
      [] s.op = "intersection_n" -> Intersection(Intersection(p, s.ps[1]), s.ps[2])
      [] s.op = "apply_pre" -> ApplyPre(p, s.f)
      [] s.op = "apply_post" -> ApplyPost(p, s.minv, s.c)
      [] s.op = "rotate" -> ApplyPost(p, Transpose(s.r), ZeroVec(p.n))
\* L0: the set the step must produce from the set of p
StepOK(p, s, r) ==
    CASE s.op = "translate" -> SetEq(Cons(r), TranslateDef(p, s.d, s.q), p.n)
      [] s.op = "intersection" -> SetEq(Cons(r), Cons(p) \cup Cons(s.p2), p.n)
      [] s.op = "intersection_n" -> SetEq(Cons(r), Cons(p) \cup Cons(s.ps[1]) \cup Cons(s.ps[2]), p.n)
      [] s.op = "apply_pre" -> SetEq(Cons(r), ApplyPreDef(p, s.f), p.n)
      \* image under y = M x + c: pulling the result back through that map gives P again
      [] s.op = "apply_post" -> SetEq(ApplyPreDef(r, A(s.m, s.c, p.n)), Cons(p), p.n)
      [] s.op = "rotate" -> SetEq(ApplyPreDef(r, A(s.r, ZeroVec(p.n), p.n)), Cons(p), p.n)

\* ---------------------------------------------------------------- clean-up (C15)
CRows == {<<<<1, 0>>, 1>>, <<<<1, 0>>, 2>>, <<<<2, 0>>, 2>>, <<<<-1, 0>>, -1>>, <<<<0, 1>>, 0>>, <<<<0, 0>>, 0>>, <<<<0, 0>>, 1>>, <<<<0, 0>>, -1>>,
          <<<<3, 4>>, 5>>, <<<<0, -3>>, 6>>, <<<<-4, 3>>, -30>>}
CPolys == UNION {{PolyOfRows(<<r>>) : r \in CRows}, {PolyOfRows(<<r, s>>) : r \in CRows, s \in CRows},
                 IF NP >= 3 THEN {PolyOfRows(<<r, s, u>>) : r \in CRows, s \in CRows, u \in {<<<<1, 0>>, 1>>, <<<<0, 1>>, 0>>, <<<<0, 0>>, 0>>, <<<<3, 4>>, 5>>, <<<<-1, 0>>, -1>>}} ELSE {}}
\* always included: infeasible systems with a superfluous row (number of rows differs from the dimension)
CExtra == {PolyOfRows(<<<<<<1, 0>>, 1>>, <<<<0, 0>>, -1>>, <<<<0, 1>>, 0>>>>), PolyOfRows(<<<<<<1, 0>>, -1>>, <<<<-1, 0>>, -1>>, <<<<0, 1>>, 5>>>>),
           PolyOfRows(<<<<<<3, 4>>, 5>>, <<<<-3, -4>>, -10>>, <<<<1, 0>>, 1>>, <<<<0, 1>>, 0>>>>),
           \* a zero row in front of a duplicated pair; the same normal twice with the tighter bound last; tautology and absurd zero rows
           PolyOfRows(<<<<<<0, 0>>, 0>>, <<<<1, 0>>, 1>>, <<<<0, 1>>, 0>>, <<<<1, 0>>, 1>>>>),
           PolyOfRows(<<<<<<1, 0>>, 1>>, <<<<0, 1>>, 0>>, <<<<1, 0>>, 0>>>>),
           PolyOfRows(<<<<<<0, 0>>, 1>>, <<<<1, 0>>, 1>>, <<<<0, 0>>, -1>>>>),
           \* a zero row in front of rows whose norm is not 1
           PolyOfRows(<<<<<<0, 0>>, 1>>, <<<<3, 4>>, 5>>, <<<<2, 0>>, 1>>>>)}
CleanOps == {"remove_tautologies", "remove_duplicate_rows", "remove_redundant", "normalize", "remove_zero_rows", "remove_rows"}

\* ---------------------------------------------------------------- affine algebra (C16)
F22 == {A(<<<<1, 2>>, <<0, -1>>>>, <<1, 0>>, 2), A(<<<<0, 1>>, <<2, 0>>>>, <<0, -2>>, 2), A(<<<<2, -2>>, <<1, 1>>>>, <<-1, 1>>, 2)}
F12 == {A(<<<<1, -1>>>>, <<2>>, 2), A(<<<<0, 0>>>>, <<0>>, 2)}
F21 == {A(<<<<1>>, <<-2>>>>, <<0, 1>>, 1)}
F32 == {A(<<<<1, 0>>, <<0, 0>>, <<0, 2>>>>, <<0, 0, 1>>, 2), A(<<<<0, 0>>, <<0, 0>>, <<0, 0>>>>, <<1, 0, 0>>, 2), A(<<<<0, 0>>, <<1, 1>>, <<0, 0>>>>, <<-2, 0, 0>>, 2)}
Z22 == A(<<<<0, 3>>, <<0, -1>>>>, <<1, 1>>, 2)
\* a column whose non-zero entries cancel in sum, and a constant function (all-zero matrix)
Q22 == A(<<<<1, 2>>, <<-1, 3>>>>, <<0, 1>>, 2)
C22 == A(<<<<0, 0>>, <<0, 0>>>>, <<3, -2>>, 2)
F23 == {A(<<<<1, 0, -1>>, <<2, 1, 0>>>>, <<0, 1>>, 3)}
F33 == {A(<<<<1, 2, 0>>, <<0, 1, -1>>, <<3, 0, 1>>>>, <<1, 0, -1>>, 3)}
F11 == {A(<<<<-3>>>>, <<2>>, 1)}
\* thorough tier (NP >= 1): more shapes and magnitudes (1 x 3, 3 x 1, 4 x 2, negative and larger entries, a permutation, a projection)
FX == {A(<<<<2, -3, 5>>>>, <<-4>>, 3), A(<<<<1>>, <<0>>, <<-7>>>>, <<3, -3, 0>>, 1), A(<<<<1, 2>>, <<-3, 4>>, <<5, -6>>, <<0, 0>>>>, <<1, -1, 2, 0>>, 2),
       A(<<<<0, 1, 0>>, <<0, 0, 1>>, <<1, 0, 0>>>>, <<0, 0, 0>>, 3), A(<<<<1, 0, 0>>, <<0, 1, 0>>>>, <<0, 0>>, 3), A(<<<<-9, 7>>, <<11, -13>>>>, <<17, -19>>, 2),
       A(<<<<6, 0>>, <<0, 0>>>>, <<0, 5>>, 2)}
AllF == F22 \cup F12 \cup F21 \cup F32 \cup {Z22, Q22, C22} \cup F23 \cup F33 \cup F11 \cup (IF NP >= 1 THEN FX ELSE {})
\* dividend / divisor pairs with exact quotients and no zero divisor entries
DivPairs == {<<A(<<<<4, -6>>, <<2, 8>>>>, <<6, -4>>, 2), A(<<<<2, 3>>, <<-1, 4>>>>, <<3, -2>>, 2)>>,
             <<A(<<<<7, -5>>, <<3, 8>>>>, <<6, -7>>, 2), A(<<<<2, 3>>, <<-2, 3>>>>, <<4, -2>>, 2)>>}
AffCtors ==
    {[ctor |-> n, dim |-> d, q |-> 1] : n \in {"identity", "zeros", "sum"}, d \in 1..4}
    \cup {[ctor |-> "constant", dim |-> d, v |-> v, q |-> 2] : d \in 1..3, v \in {3, -1, 0}}
    \cup {[ctor |-> n, dim |-> d, idx |-> i, q |-> 1] : n \in {"unit", "zero_idx"}, d \in 1..4, i \in 0..3}
    \cup {[ctor |-> "subtraction", dim |-> d, l |-> l, r |-> r, q |-> 1] : d \in 2..4, l \in 0..3, r \in 0..3}
    \cup {[ctor |-> "rotation", dim |-> 2, r |-> r, q |-> 1] : r \in Orth2}
    \cup {[ctor |-> "scaling", dim |-> Len(v), v |-> v, q |-> 2] : v \in {<<1, -4>>, <<3>>, <<0, 2, 5>>}}
    \cup {[ctor |-> "uniform_scaling", dim |-> d, s |-> s, q |-> 2] : d \in 1..3, s \in {3, -2}}
    \cup {[ctor |-> "slice", dim |-> Len(mk), mask |-> mk, ref |-> rf, q |-> 2] : mk \in {<<TRUE, FALSE>>, <<FALSE, FALSE, TRUE>>, <<TRUE>>, <<FALSE>>}, rf \in {<<3, -1, 4>>, <<0, 5, 0>>}}
    \cup {[ctor |-> "translation", dim |-> Len(o), off |-> o, q |-> 2] : o \in {<<1, -3>>, <<2>>, <<0, 1, -1>>}}
ValidCtor(c) ==
    /\ (c.ctor \in {"unit", "zero_idx"} => c.idx < c.dim)
    /\ (c.ctor = "subtraction" => c.l < c.dim /\ c.r < c.dim)
    /\ (c.ctor = "slice" => Len(c.ref) >= Len(c.mask))
    /\ (c.ctor = "rotation" => TRUE)
AffCtorDef(c) ==
    CASE c.ctor = "identity" -> Identity(c.dim) [] c.ctor = "zeros" -> Zeros(c.dim) [] c.ctor = "sum" -> SumF(c.dim)
      [] c.ctor = "constant" -> Constant(c.dim, c.v, c.q) [] c.ctor = "unit" -> Unit(c.dim, c.idx) [] c.ctor = "zero_idx" -> ZeroIdx(c.dim, c.idx)
      [] c.ctor = "subtraction" -> Subtraction(c.dim, c.l, c.r) [] c.ctor = "rotation" -> Rotation(c.r)
      [] c.ctor = "scaling" -> Scaling(c.v, c.q) [] c.ctor = "uniform_scaling" -> UniformScaling(c.dim, c.s, c.q)
      [] c.ctor = "slice" -> Slice(c.mask, SubSeq(c.ref, 1, Len(c.mask)), c.q)
      [] c.ctor = "translation" -> Translation(c.dim, c.off, c.q)
AffOps ==
    {[op |-> "ctor", ctor |-> c] : c \in {x \in AffCtors : ValidCtor(x)}}
    \cup {[op |-> "compose", f |-> f, g |-> g] : f \in AllF, g \in AllF}
    \cup {[op |-> "stack", f |-> f, g |-> g] : f \in AllF, g \in AllF}
    \cup {[op |-> o, f |-> f, g |-> g] : o \in {"add", "sub", "mul"}, f \in F22 \cup {Z22}, g \in F22 \cup {C22, Q22}}
    \cup {[op |-> o, f |-> pr[1], g |-> pr[2]] : o \in {"div", "rem"}, pr \in DivPairs}
    \cup {[op |-> o, f |-> f] : o \in {"neg", "row_iter", "remove_zero_rows", "remove_zero_columns", "rzc_rzr", "from_row_iter", "view_owned", "as_polytope", "as_function"}, f \in AllF}
    \cup {[op |-> o, f |-> f, den |-> 2] : o \in {"apply", "apply_transpose"}, f \in AllF}
    \cup {[op |-> "views", f |-> f] : f \in AllF}
    \cup {[op |-> "reset_row", f |-> f, row |-> r] : f \in AllF, r \in 0..2}
    \cup {[op |-> "row", f |-> f, row |-> r] : f \in AllF, r \in 0..2}
    \cup {[op |-> "remove_rows", f |-> f, rows |-> rs] : f \in F32, rs \in {<<>>, <<0>>, <<1, 2>>, <<0, 1, 2>>}}
    \cup {[op |-> "convert_to", f |-> f, repr |-> r] : f \in F22, r \in {"MatrixLeqBias", "MatrixBiasLeqZero", "MatrixGeqBias", "MatrixBiasGeqZero"}}
ValidAffOp(o) ==
    /\ (o.op = "compose" => o.f.n = Len(o.g.m))
    /\ (o.op = "stack" => o.f.n = o.g.n)
    /\ (o.op \in {"row", "reset_row"} => o.row < Len(o.f.m))

\* ---------------------------------------------------------------- LP layer (C10)
LRows == {<<<<a, b>>, c>> : a \in {-1, 0, 1}, b \in {-1, 0, 1}, c \in {-1, 0, 1}}
LRowsS == {<<<<1, 0>>, 1>>, <<<<-1, 0>>, 0>>, <<<<0, 1>>, 1>>, <<<<0, -1>>, 1>>, <<<<1, 1>>, -1>>, <<<<-1, -1>>, 1>>, <<<<0, 0>>, 0>>, <<<<0, 0>>, -1>>, <<<<1, -1>>, 0>>}
LPolys == UNION {{PolyOfRows(<<r>>) : r \in LRows}, {PolyOfRows(<<r, s>>) : r \in LRows, s \in LRows},
                 IF NP >= 3 THEN {PolyOfRows(<<r, s, u>>) : r \in LRowsS, s \in LRowsS, u \in LRowsS} ELSE {},
                 IF NP >= 4 THEN {PolyOfRows(<<r, s, u, v>>) : r \in LRowsS, s \in LRowsS, u \in LRowsS, v \in {<<<<1, 0>>, 1>>, <<<<-1, -1>>, 1>>, <<<<0, 1>>, 1>>}} ELSE {}}
\* anti-parallel rows of different scale (a slab between a x <= b and -k a x <= c, k # 1): fat, thin and empty ones
LExtra == {PolyOfRows(<<<<<<1, 0>>, 1>>, <<<<-2, 0>>, -1>>>>), PolyOfRows(<<<<<<1, 1>>, 2>>, <<<<-2, -2>>, -3>>, <<<<1, 0>>, 1>>, <<<<-1, 0>>, 1>>>>),
           PolyOfRows(<<<<<<0, -4>>, -4>>, <<<<0, 1>>, 3>>>>), PolyOfRows(<<<<<<2, 0>>, 1>>, <<<<-1, 0>>, -1>>>>), PolyOfRows(<<<<<<1, 0>>, 1>>, <<<<-2, 0>>, -2>>>>)}
Objs == {<<0, 0>>, <<1, 0>>, <<0, 1>>, <<1, 1>>, <<-1, 1>>}
PolyOfRowsD(rs, d) == A([i \in 1..Len(rs) |-> rs[i][1]], [i \in 1..Len(rs) |-> rs[i][2]], d)
LRows1 == {<<<<a>>, c>> : a \in {-1, 0, 1}, c \in {-1, 0, 1}}
LPolys1 == {PolyOfRowsD(<<r>>, 1) : r \in LRows1} \cup {PolyOfRowsD(<<r, s>>, 1) : r \in LRows1, s \in LRows1}
Objs1 == {<<0>>, <<1>>, <<-1>>}
LRows3 == {<<<<1, 0, 0>>, 1>>, <<<<-1, 0, 0>>, 0>>, <<<<0, 1, 0>>, 1>>, <<<<0, -1, 0>>, 1>>, <<<<0, 0, 1>>, 0>>, <<<<1, 1, 1>>, -1>>, <<<<-1, -1, -1>>, 1>>, <<<<0, 0, 0>>, -1>>, <<<<0, 0, -1>>, 0>>}
LPolys3 == {PolyOfRowsD(<<r>>, 3) : r \in LRows3} \cup {PolyOfRowsD(<<r, s>>, 3) : r \in LRows3, s \in LRows3}
           \cup {PolyOfRowsD(<<<<<<1, 0, 0>>, 1>>, <<<<-1, 0, 0>>, 0>>, <<<<0, 1, 0>>, 1>>, <<<<0, -1, 0>>, 1>>, <<<<0, 0, 1>>, 0>>, <<<<0, 0, -1>>, 0>>>>, 3)}
Objs3 == {<<0, 0, 0>>, <<1, 0, 0>>, <<1, 1, 1>>, <<0, -1, 1>>}

\* ---------------------------------------------------------------- mirror_points (C05)
MPolys == {PolyOfRows(<<r>>) : r \in LRowsS} \cup {PolyOfRows(<<r, s>>) : r \in LRowsS, s \in LRowsS}
          \cup {PolyOfRows(<<<<<<3, 4>>, 5>>, <<<<-4, 3>>, 2>>>>), PolyOfRows(<<<<<<1, 0>>, 1>>, <<<<-1, 0>>, 1>>, <<<<0, 1>>, 1>>, <<<<0, -1>>, 1>>>>)}
MStarts == {<<<<0, 0>>>>, <<<<6, -6>>>>, <<<<-3, 1>>, <<4, 4>>>>}            \* points scaled by 2

\* ---------------------------------------------------------------- state machine
Init == stage = "init" /\ reg = None /\ prev = None /\ hist = None /\ last = None

Start == \E c \in Ctors :
    /\ stage = "init" /\ MODE = "poly"
    /\ reg' = Build(c) /\ prev' = None /\ last' = c /\ hist' = [ctor |-> c, pipe |-> <<>>]
    /\ stage' = "p0"
DepthOf == CASE stage = "p0" -> 0 [] stage = "p1" -> 1 [] stage = "p2" -> 2 [] OTHER -> 99
PolyStep == \E s \in PolySteps \cup PolySteps3 :
    /\ MODE = "poly" /\ DepthOf < NP /\ reg.n \in {2, 3}
    /\ (s \in PolySteps3) = (reg.n = 3) /\ (reg.n = 3 => DepthOf = 0)
    /\ hist.ctor.ctor \in {"rows", "hypercube", "axis_bounds", "from_normal", "cross_polytope", "simplex"}
    /\ prev' = reg /\ reg' = Do(reg, s) /\ last' = s
    /\ hist' = [hist EXCEPT !.pipe = Append(hist.pipe, s)]
    /\ stage' = IF DepthOf = 0 THEN "p1" ELSE IF DepthOf = 1 THEN "p2" ELSE "p3"
\* tiny: the whole system (coefficients and bias) is multiplied by 1e-17 before the call - the same half-spaces with
\* coefficients below the machine epsilon; the harness logs the rows scaled back
\* negzero: every zero bias is passed as -0.0 (same constraint; the sign bit must not matter)
CleanStart == \E p \in CPolys \cup CExtra, o \in CleanOps, rs \in {<<0>>, <<1>>, <<0, 2>>, <<>>}, tiny \in BOOLEAN, nz \in BOOLEAN :
    /\ stage = "init" /\ MODE = "clean"
    \* only the operations that test for exact zeros; remove_duplicate_rows compares with an absolute tolerance by design
    /\ (tiny => o \in {"remove_tautologies", "remove_zero_rows"} /\ Len(p.m) <= 2)
    /\ (nz => ~tiny /\ o # "remove_rows" /\ \E i \in 1..Len(p.b) : p.b[i] = 0)
    /\ (o = "remove_rows" => \A i \in 1..Len(rs) : rs[i] < Len(p.m)) /\ (o # "remove_rows" => rs = <<>>)
    /\ reg' = p /\ prev' = None /\ last' = [op |-> o, rows |-> rs, tiny |-> tiny, negzero |-> nz] /\ hist' = [ctor |-> Ctor("rows", [p |-> p, tiny |-> tiny, negzero |-> nz]), pipe |-> <<[op |-> o, rows |-> rs, qout |-> IF o = "normalize" THEN 30 ELSE 1]>>]
    /\ stage' = "c1"
AffStart == \E o \in AffOps :
    /\ stage = "init" /\ MODE = "aff" /\ ValidAffOp(o)
    /\ reg' = None /\ prev' = None /\ last' = o /\ hist' = o /\ stage' = "a1"
LpStart == \E pc \in ((LPolys \cup LExtra) \X Objs) \cup (LPolys1 \X Objs1) \cup (LPolys3 \X Objs3) :
    LET p == pc[1]  c == pc[2] IN
    /\ stage = "init" /\ MODE = "lp"
    /\ reg' = p /\ prev' = None /\ last' = c /\ hist' = [p |-> p, c |-> c] /\ stage' = "l1"
MirrorStart == \E p \in MPolys, s \in MStarts, it \in {1, 8, 20} :
    /\ stage = "init" /\ MODE = "mirror"
    /\ reg' = p /\ prev' = None /\ last' = s /\ hist' = [p |-> p, pts |-> s, iters |-> it] /\ stage' = "m1"

Next == Start \/ PolyStep \/ CleanStart \/ AffStart \/ LpStart \/ MirrorStart
Spec == Init /\ [][Next]_vars

\* ---------------------------------------------------------------- properties at design level
\* C14: constructors denote the documented set; transformations denote the documented image / pre-image
CtorOK == stage = "p0" =>
    IF last.ctor = "simplex" THEN SimplexOK(reg, 3, 2) ELSE SetEq(Cons(reg), Def(last), reg.n)
StepsOK == stage \in {"p1", "p2", "p3"} => StepOK(prev, last, reg)
\* C16: algebraic identities of the L1 definitions on a grid
AffGrid == VecsOver(-2..2, 2)
AffGridD(d) == VecsOver(-1..1, d)
ComposeLaw == (stage = "a1" /\ last.op = "compose" /\ last.g.n = 2) =>
    \A x \in AffGrid : Apply(Compose(last.f, last.g), x, 1) = Apply(last.f, Apply(last.g, x, 1), 1)
AddLaw == (stage = "a1" /\ last.op \in {"add", "sub"} ) =>
    \A x \in AffGrid : Apply(IF last.op = "add" THEN AddF(last.f, last.g) ELSE SubF(last.f, last.g), x, 1)
                       = (IF last.op = "add" THEN VAdd(Apply(last.f, x, 1), Apply(last.g, x, 1)) ELSE VSub(Apply(last.f, x, 1), Apply(last.g, x, 1)))

Emit ==
    (EMIT /\ stage' # "init") =>
        CASE MODE = "poly" -> PrintT("SCRIPT " \o ToJson([fam |-> "linalg", kind |-> "poly", q |-> 2, ctor |-> hist'.ctor, pipe |-> hist'.pipe, lastonly |-> TRUE]))
          [] MODE = "clean" -> PrintT("SCRIPT " \o ToJson([fam |-> "linalg", kind |-> "poly", q |-> 1, ctor |-> hist'.ctor, pipe |-> hist'.pipe, lastonly |-> TRUE]))
          [] MODE = "aff" -> PrintT("SCRIPT " \o ToJson([fam |-> "linalg", kind |-> "aff", q |-> 2] @@ hist'))
          [] MODE = "lp" -> PrintT("SCRIPT " \o ToJson([fam |-> "linalg", kind |-> "lp", q |-> 1, p |-> hist'.p, c |-> hist'.c]))
          [] MODE = "mirror" -> PrintT("SCRIPT " \o ToJson([fam |-> "linalg", kind |-> "mirror", q |-> 1, p |-> hist'.p, pts |-> hist'.pts, iters |-> hist'.iters]))
=============================================================================
