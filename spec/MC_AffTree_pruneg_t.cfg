SPECIFICATION Spec
CONSTANTS
  MODE = "pruneg"
  K = 2
  NF = 2
  NG = 1
  PF = "p1x"
  TF = "t12"
  PG = "p2s"
  TG = "t22s"
  LAYOUTS = {"dfs"}
  EMIT = TRUE
VIEW View
INVARIANTS LawPrune LawCache LawEffective ResultWellFormed
ACTION_CONSTRAINT Emit
CHECK_DEADLOCK FALSE
