SPECIFICATION Spec
CONSTANTS
  MODE = "arch"
  N = 4
  EMIT = TRUE
VIEW View
INVARIANTS SchemaLaw NetLaw ArchLaw
ACTION_CONSTRAINT Emit
CHECK_DEADLOCK FALSE
