SPECIFICATION Spec
CONSTANTS
  MODE = "mirror"
  NP = 0
  EMIT = TRUE
VIEW View
INVARIANTS CtorOK
ACTION_CONSTRAINT Emit
CHECK_DEADLOCK FALSE
