----------------------------- MODULE AffTreeL1 -----------------------------
(* L1 model of affinitree::pwl::AffTree<K>: the arena (slab with LIFO reuse)  *)
(* holding affine maps, and the algorithms written step for step like the     *)
(* Rust code: grafting composition (generic_composition_inplace) with its      *)
(* created/skipped counters and forwarding, apply_func, the arithmetic          *)
(* schemas, reduce (reverse BFS), infeasible_elimination (DFS with deferred     *)
(* removal and forward_if_redundant).  LP answers are an explicit oracle         *)
(* parameter so that the same operators serve the model checker (ideal or        *)
(* nondeterministic oracle) and the validator (recorded answers).               *)
EXTENDS Pwl, TLC

Aff(m, b) == [m |-> m, b |-> b, q |-> 1]
AffQ(m, b, q) == [m |-> m, b |-> b, q |-> q]
MkNode(p, K, a) == [p |-> p, ch |-> [l \in 1..K |-> NONE], leaf |-> TRUE, m |-> a.m, b |-> a.b, q |-> a.q,
                    st |-> "I", w |-> <<>>, ex |-> TRUE]
AffOf(nd) == [m |-> nd.m, b |-> nd.b, q |-> nd.q]
SetAff(nd, a) == [nd EXCEPT !.m = a.m, !.b = a.b, !.q = a.q]

\* ------------------------------------------------------------------ slab
NextKey(t) == IF t.free # <<>> THEN Head(t.free) ELSE t.slen
Insert(t, nd) ==
    LET k == NextKey(t)
    IN [t EXCEPT !.nodes = [i \in Occ(t) \cup {k} |-> IF i = k THEN nd ELSE t.nodes[i]],
                 !.free = IF t.free # <<>> THEN Tail(t.free) ELSE t.free,
                 !.slen = IF t.free # <<>> THEN t.slen ELSE t.slen + 1]
Remove(t, k) == [t EXCEPT !.nodes = [i \in Occ(t) \ {k} |-> t.nodes[i]], !.free = <<k>> \o t.free]
SetNode(t, i, nd) == [t EXCEPT !.nodes[i] = nd]
NumChildren(nd) == Cardinality({l \in 1..Len(nd.ch) : nd.ch[l] # NONE})
KidsSeq(nd) ==       \* existing children in ascending label order: [l |-> 0-based label, c |-> index]
    LET labs == SelectSeq([k \in 1..Len(nd.ch) |-> k], LAMBDA k : nd.ch[k] # NONE)
    IN [j \in 1..Len(labs) |-> [l |-> labs[j] - 1, c |-> nd.ch[labs[j]]]]

FromAff(a, K) ==
    [root |-> 0, dim |-> Cols(a.m), k |-> K, nodes |-> (0 :> MkNode(NONE, K, a)), free |-> <<>>, slen |-> 1]

AddChild(t, p, l, a) ==
    LET k == NextKey(t)
        t1 == Insert(t, MkNode(p, t.k, a))
    IN SetNode(t1, p, [t.nodes[p] EXCEPT !.ch[l + 1] = k, !.leaf = FALSE])

RECURSIVE RemovalOrder(_, _, _)
RemovalOrder(t, stack, acc) ==
    IF stack = <<>> THEN acc
    ELSE LET n == stack[Len(stack)]
             kids == SelectSeq(t.nodes[n].ch, LAMBDA c : c # NONE)
         IN RemovalOrder(t, SubSeq(stack, 1, Len(stack) - 1) \o kids, Append(acc, n))
RECURSIVE RemoveSeq(_, _, _)
RemoveSeq(t, order, k) == IF k > Len(order) THEN t ELSE RemoveSeq(Remove(t, order[k]), order, k + 1)

\* try_remove_child(p, l) on an existing child
RemoveChild(t, p, l) ==
    LET c == t.nodes[p].ch[l + 1]
        order == RemovalOrder(t, SelectSeq(t.nodes[c].ch, LAMBDA x : x # NONE), <<>>)
        t1 == RemoveSeq(t, order, 1)
        pn == [t1.nodes[p] EXCEPT !.ch[l + 1] = NONE]
        t2 == SetNode(t1, p, [pn EXCEPT !.leaf = (NumChildren(pn) = 0)])
    IN Remove(t2, c)

\* merge_child_with_parent(p, l): p has exactly one child (at label l) and is not the root
MergeChild(t, p, l) ==
    LET c == t.nodes[p].ch[l + 1]
        g == t.nodes[p].p
        gl == CHOOSE s \in 1..t.k : t.nodes[g].ch[s] = p
        t1 == SetNode(SetNode(t, g, [t.nodes[g] EXCEPT !.ch[gl] = c]), c, [t.nodes[c] EXCEPT !.p = g])
    IN Remove(t1, p)

SortedSeq(S) ==
    LET RECURSIVE Go(_)
        Go(R) == IF R = {} THEN <<>> ELSE LET m == CHOOSE x \in R : \A y \in R : x <= y IN <<m>> \o Go(R \ {m})
    IN Go(S)
TerminalIdx(t) == SortedSeq({i \in Occ(t) : t.nodes[i].leaf})

\* ------------------------------------------------------------------ apply_func
ComposeAff(g, f) == LET o == ComposeOut(Out(g.m, g.b, g.q), Out(f.m, f.b, f.q)) IN [m |-> o.m, b |-> o.b, q |-> o.q]
ApplyFunc(t, a) ==
    [t EXCEPT !.nodes = [i \in Occ(t) |-> IF t.nodes[i].leaf THEN SetAff(t.nodes[i], ComposeAff(a, AffOf(t.nodes[i]))) ELSE t.nodes[i]]]

\* replace_node(i, a): the subtree below i is dropped and i becomes a terminal holding a. For the root the function is overwritten
\* in place (children are kept: "caller is responsible to uphold invariants"); otherwise the child slot is removed and re-added,
\* so the new terminal takes the index freed last (LIFO reuse)
ReplaceNode(t, i, a) ==
    IF i = t.root THEN SetNode(t, i, SetAff(t.nodes[i], a))
    ELSE LET p == t.nodes[i].p
             lab == (CHOOSE sl \in 1..t.k : t.nodes[p].ch[sl] = i) - 1
         IN AddChild(RemoveChild(t, p, lab), p, lab, a)

\* ------------------------------------------------------------------ composition schemas
\* update of a node of the grafted tree g in the context of the terminal function ta of self
UpdDecisionCompose(a, ta) ==      \* predicate A y <= b pulled back through y = ta(x)
    [m |-> MatMul(a.m, ta.m), b |-> VSub(Scale(ta.q, a.b), MatVec(a.m, ta.b)), q |-> a.q * ta.q]
Upd(schema, isleaf, a, ta) ==
    IF schema = "compose"
    THEN IF isleaf THEN ComposeAff(a, ta) ELSE UpdDecisionCompose(a, ta)
    ELSE IF isleaf THEN LET o == CoeffWise(schema, Out(ta.m, ta.b, ta.q), Out(a.m, a.b, a.q)) IN [m |-> o.m, b |-> o.b, q |-> o.q]
         ELSE a

\* ideal LP: the closed path region is non-empty
IdealLP(t, c) == Feas(ClosedRegion(t, c), t.dim)

(* is_edge_feasible(parent p, child c) as implemented: edges from index 0 are never pruned; cached states;      *)
(* otherwise the LP verdict.  lp(t, c) is the oracle: TRUE = "feasible" (Optimal/Unbounded/Error), FALSE = Infeasible *)
EdgeFeasible(t, p, c) ==
    IF p = 0 THEN TRUE
    ELSE IF t.nodes[c].st = "X" THEN FALSE
    ELSE IF t.nodes[c].st \in {"F", "W"} THEN TRUE
    ELSE IF t.nodes[p].st = "X" THEN FALSE
    ELSE IdealLP(t, c)

RECURSIVE GraftKids(_, _, _, _, _, _, _, _, _, _, _)
\* processes the children of g-node p0 below self-node p1; returns [t, push, created, skipped, last]
GraftKids(t, g, schema, prune, ta, p1, kids, j, created, skipped, acc) ==
    IF j > Len(kids) THEN [t |-> t, push |-> acc.push, created |-> created, skipped |-> skipped, last |-> acc.last]
    ELSE LET c0 == kids[j].c
             lab == kids[j].l
             c1 == NextKey(t)
             t1 == AddChild(t, p1, lab, Upd(schema, g.nodes[c0].leaf, AffOf(g.nodes[c0]), ta))
         IN IF ~prune \/ EdgeFeasible(t1, p1, c1)
            THEN GraftKids(t1, g, schema, prune, ta, p1, kids, j + 1, created + 1, skipped,
                           [push |-> Append(acc.push, <<c0, c1>>), last |-> lab])
            ELSE GraftKids(RemoveChild(t1, p1, lab), g, schema, prune, ta, p1, kids, j + 1, created, skipped + 1, acc)

RECURSIVE GraftStack(_, _, _, _, _, _)
RECURSIVE ReAdd(_, _, _, _, _, _, _)
\* when every branch of a grafted decision was pruned, pruning is undone for this node (the decision must keep children):
\* the skipped children are added again and explored
ReAdd(t, g, schema, ta, p1, kids, j) ==
    IF j > Len(kids) THEN [t |-> t, push |-> <<>>]
    ELSE LET c1 == NextKey(t)
             t1 == AddChild(t, p1, kids[j].l, Upd(schema, g.nodes[kids[j].c].leaf, AffOf(g.nodes[kids[j].c]), ta))
             r == ReAdd(t1, g, schema, ta, p1, kids, j + 1)
         IN [t |-> r.t, push |-> <<<<kids[j].c, c1>>>> \o r.push]
GraftStack(t, g, schema, prune, ta, stack) ==
    IF stack = <<>> THEN t
    ELSE LET top == stack[Len(stack)]
             rest == SubSeq(stack, 1, Len(stack) - 1)
             kids == KidsSeq(g.nodes[top[1]])
             r == GraftKids(t, g, schema, prune, ta, top[2], kids, 1, 0, 0, [push |-> <<>>, last |-> -1])
         IN IF r.created = 0 /\ r.skipped > 0
            THEN LET ra == ReAdd(r.t, g, schema, ta, top[2], kids, 1) IN GraftStack(ra.t, g, schema, prune, ta, rest \o ra.push)
            ELSE LET t2 == IF r.created = 1 /\ r.created + r.skipped = t.k THEN MergeChild(r.t, top[2], r.last) ELSE r.t
                 IN GraftStack(t2, g, schema, prune, ta, rest \o r.push)

RECURSIVE GraftTerminals(_, _, _, _, _, _)
GraftTerminals(t, g, schema, prune, terms, j) ==
    IF j > Len(terms) THEN t
    ELSE LET ti == terms[j]
             ta == AffOf(t.nodes[ti])
             t1 == SetNode(t, ti, SetAff(t.nodes[ti], Upd(schema, g.nodes[g.root].leaf, AffOf(g.nodes[g.root]), ta)))
         IN GraftTerminals(GraftStack(t1, g, schema, prune, ta, <<<<g.root, ti>>>>), g, schema, prune, terms, j + 1)

\* self.compose::<PRUNE>(g)  (g after self);  a op b for schema in {add, sub, mul, div} (always pruning)
Graft(t, g, schema, prune) == GraftTerminals(t, g, schema, prune, TerminalIdx(t), 1)
Compose(t, g) == Graft(t, g, "compose", FALSE)
ComposePruned(t, g) == Graft(t, g, "compose", TRUE)
Arith(op, a, b) == Graft(a, b, op, TRUE)
NegTree(t) == [t EXCEPT !.nodes = [i \in Occ(t) |-> IF t.nodes[i].leaf THEN SetAff(t.nodes[i], [m |-> MNeg(t.nodes[i].m), b |-> Neg(t.nodes[i].b), q |-> t.nodes[i].q]) ELSE t.nodes[i]]]

\* ------------------------------------------------------------------ reduce (AffTree<2>): reverse BFS order
RECURSIVE BfsOrder(_, _)
BfsOrder(t, queue) ==
    IF queue = <<>> THEN <<>>
    ELSE LET n == Head(queue)
             kids == SelectSeq(t.nodes[n].ch, LAMBDA c : c # NONE)
         IN <<n>> \o BfsOrder(t, Tail(queue) \o kids)
RECURSIVE ReduceGo(_, _, _)
ReduceGo(t, order, j) ==
    IF j = 0 THEN t
    ELSE LET n == order[j] IN
         IF n \notin Occ(t) \/ NumChildren(t.nodes[n]) = 0 \/ n = t.root THEN ReduceGo(t, order, j - 1)
         ELSE LET l0 == t.nodes[n].ch[1]  r0 == t.nodes[n].ch[2] IN
              IF l0 = NONE \/ r0 = NONE THEN ReduceGo(t, order, j - 1)
              ELSE IF NumChildren(t.nodes[l0]) # 0 \/ NumChildren(t.nodes[r0]) # 0 THEN ReduceGo(t, order, j - 1)
              ELSE IF t.nodes[l0].m = t.nodes[r0].m /\ t.nodes[l0].b = t.nodes[r0].b /\ t.nodes[l0].q = t.nodes[r0].q
                   THEN ReduceGo(MergeChild(RemoveChild(t, n, 1), n, 0), order, j - 1)
                   ELSE ReduceGo(t, order, j - 1)
Reduce(t) == LET order == BfsOrder(t, <<t.root>>) IN ReduceGo(t, order, Len(order))


\* ------------------------------------------------------------------ infeasible_elimination
(* One step per DFS item, exactly as the Rust loop: cached states short-cut, phase_inh (inherit the parent's      *)
(* witnesses that satisfy the new half-space), phase_two (LP, here the ideal oracle on the closed path region),     *)
(* skip_subtree + deferred removal for infeasible nodes, forward_if_redundant after the last sibling.              *)
(* phase_one (mirror heuristic) only ever produces witnesses inside the region, i.e. the same verdict as the LP.    *)
(* Witness points are half-integer grid points (scaled by 2); the implementation's LP returns other points -        *)
(* cached points are compared by the property formulas (containment), never by equality.                            *)
Reverse(sq) == [j \in 1..Len(sq) |-> sq[Len(sq) + 1 - j]]
DfsNew(t) == [st |-> <<[depth |-> 0, idx |-> t.root, rem |-> 0]>>, last |-> 0]
DfsNext(t, c) ==
    LET e == c.st[Len(c.st)]
        ks == KidsSeq(t.nodes[e.idx])
        push == Reverse([j \in 1..Len(ks) |-> [depth |-> e.depth + 1, idx |-> ks[j].c, rem |-> Len(ks) - j]])
    IN [c |-> [st |-> SubSeq(c.st, 1, Len(c.st) - 1) \o push, last |-> Len(ks)], item |-> e]
DfsSkip(c) == [st |-> SubSeq(c.st, 1, Len(c.st) - c.last), last |-> 0]

LabelOf(t, n) == (CHOOSE sl \in 1..t.k : t.nodes[t.nodes[n].p].ch[sl] = n) - 1
WGrid(d) == VecsOver(-8..8, d)                                  \* half-integers in [-4, 4]^d, scaled by 2
WitnessOf(C, d) ==
    LET S == {x \in WGrid(d) : SatAll(C, x, 2)}
    IN IF S = {} THEN <<>> ELSE <<CHOOSE x \in S : \A y \in S : Dot(x, x) <= Dot(y, y)>>
\* fault = "" (the solver answers correctly) | "Error" | "Unbounded" | "Perturbed" | "FarOff"  (C11: LP faults as environment)
\* -> [st, w, lp : whether an LP call was made]
NewStateF(t, p, n, fault) ==
    LET lab == LabelOf(t, n)
        half == ClosedConsOf(t.nodes[p], lab)
        inh == IF t.nodes[p].st = "W" THEN SelectSeq(t.nodes[p].w, LAMBDA x : SatAll(half, x, 2)) ELSE <<>>
        C == ClosedRegion(t, n)
        ws == WitnessOf(C, t.dim)
    IN IF inh # <<>> THEN [st |-> "W", w |-> inh, lp |-> FALSE]
       ELSE CASE fault = "Error" -> [st |-> "I", w |-> <<>>, lp |-> TRUE]                       \* phase_two: Error => Indeterminate
              [] fault = "Unbounded" -> [st |-> "F", w |-> <<>>, lp |-> TRUE]                   \* Unbounded => Feasible without witness
              [] fault = "FarOff" -> [st |-> "I", w |-> <<>>, lp |-> TRUE]                      \* point outside, repair fails => Indeterminate
              [] fault = "Perturbed" -> (IF ws = <<>> THEN [st |-> "I", w |-> <<>>, lp |-> TRUE]     \* repair succeeds only inside the region
                                        ELSE [st |-> "W", w |-> ws, lp |-> TRUE])
              [] OTHER -> (IF ~Feas(C, t.dim) THEN [st |-> "X", w |-> <<>>, lp |-> TRUE]
                           ELSE IF ws = <<>> THEN [st |-> "F", w |-> <<>>, lp |-> TRUE] ELSE [st |-> "W", w |-> ws, lp |-> TRUE])
NewState(t, p, n) == NewStateF(t, p, n, "")

RECURSIVE RemoveLabels(_, _, _, _)
RemoveLabels(t, p, labs, j) == IF j > Len(labs) THEN t ELSE RemoveLabels(RemoveChild(t, p, labs[j]), p, labs, j + 1)
ForwardIfRedundant(t, p) ==
    LET ks == KidsSeq(t.nodes[p])
        feas == SelectSeq(ks, LAMBDA e : t.nodes[e.c].st \in {"F", "W"})
        inf == SelectSeq(ks, LAMBDA e : t.nodes[e.c].st = "X")
    IN IF Len(feas) # 1 \/ Len(inf) # t.k - 1 THEN t
       ELSE LET t1 == RemoveLabels(t, p, [j \in 1..Len(inf) |-> inf[j].l], 1)
            IN IF p = t.root THEN t1 ELSE MergeChild(t1, p, feas[1].l)

\* deferred removal of the infeasible nodes; a decision never loses its last child (it would turn into a terminal
\* holding a predicate)
RECURSIVE FinalRemove(_, _, _)
FinalRemove(t, rm, j) ==
    IF j > Len(rm) THEN t
    ELSE LET lab == rm[j][1]  p == rm[j][2] IN
         IF p \in Occ(t) /\ t.nodes[p].ch[lab + 1] # NONE /\ NumChildren(t.nodes[p]) > 1
         THEN FinalRemove(RemoveChild(t, p, lab), rm, j + 1)
         ELSE FinalRemove(t, rm, j + 1)

\* plan: set of <<LP call number (0-based), fault kind>>
FaultAt(plan, k) == IF \E pr \in plan : pr[1] = k THEN (CHOOSE pr \in plan : pr[1] = k)[2] ELSE ""
RECURSIVE ElimLoop(_, _, _, _, _)
\* -> [t, lpn]
ElimLoop(t, c, rm, lpn, plan) ==
    IF c.st = <<>> THEN [t |-> FinalRemove(t, rm, 1), lpn |-> lpn]
    ELSE LET r == DfsNext(t, c)
             n == r.item.idx
         IN IF n = t.root THEN ElimLoop(t, r.c, rm, lpn, plan)
            ELSE IF t.nodes[n].st = "X" THEN ElimLoop(t, DfsSkip(r.c), rm, lpn, plan)
            ELSE IF t.nodes[n].st \in {"F", "W"} THEN ElimLoop(t, r.c, rm, lpn, plan)
            ELSE LET p == t.nodes[n].p
                     s == NewStateF(t, p, n, FaultAt(plan, lpn))
                     c2 == IF s.st = "X" THEN DfsSkip(r.c) ELSE r.c
                     rm2 == IF s.st = "X" THEN Append(rm, <<LabelOf(t, n), p>>) ELSE rm
                     t2 == SetNode(t, n, [t.nodes[n] EXCEPT !.st = s.st, !.w = s.w])
                     t3 == IF r.item.rem = 0 THEN ForwardIfRedundant(t2, p) ELSE t2
                 IN ElimLoop(t3, c2, rm2, IF s.lp THEN lpn + 1 ELSE lpn, plan)
EliminateF(t, plan) == ElimLoop(t, DfsNew(t), <<>>, 0, plan).t
Eliminate(t) == EliminateF(t, {})
LpCalls(t) == ElimLoop(t, DfsNew(t), <<>>, 0, {}).lpn

\* ------------------------------------------------------------------ building trees from abstract trees
(* abstract tree: [t |-> "L", a |-> aff] | [t |-> "D", a |-> predicate aff, kids |-> Seq(K) of abstract trees] | [t |-> "M"] *)
Missing == [t |-> "M"]
Leaf(a) == [t |-> "L", a |-> a]
Dec(a, kids) == [t |-> "D", a |-> a, kids |-> kids]
RECURSIVE NumDec(_)
NumDec(x) == IF x.t # "D" THEN 0
             ELSE LET RECURSIVE S(_) S(j) == IF j > Len(x.kids) THEN 0 ELSE NumDec(x.kids[j]) + S(j + 1) IN 1 + S(1)

\* build ops in DFS preorder; "rev": children by descending label; "hole": a dummy node is added below the first terminal
\* and removed at the end, so that arena indices are non-contiguous
RECURSIVE BuildOps(_, _, _, _)
\* ops to build the children of abstract node x whose arena index is idx; next free index nxt; -> [ops, nxt]
BuildOps(x, idx, nxt, rev) ==
    IF x.t # "D" THEN [ops |-> <<>>, nxt |-> nxt]
    ELSE LET K == Len(x.kids)
             order == IF rev THEN [j \in 1..K |-> K + 1 - j] ELSE [j \in 1..K |-> j]
             RECURSIVE Go(_, _, _)
             Go(j, n, acc) ==
                IF j > K THEN [ops |-> acc, nxt |-> n]
                ELSE LET c == x.kids[order[j]] IN
                     IF c.t = "M" THEN Go(j + 1, n, acc)
                     ELSE LET sub == BuildOps(c, n, n + 1, rev)
                          IN Go(j + 1, sub.nxt, acc \o <<[op |-> "add_child", p |-> idx, l |-> order[j] - 1, a |-> c.a]>> \o sub.ops)
         IN Go(1, nxt, <<>>)
\* "low": a child gets a smaller arena index than its parent (index reuse after a deletion): a dummy X is added at the root
\* slot of the second child, the first child A (a decision) is added, X is removed, and A's subtree is built next, so A's first
\* child reuses X's index.  Applies when the root's first existing child is a decision and K = 2.
ScriptLow(x, K) ==
    LET a == x.kids[1]
        rootop == [op |-> "from_aff", p |-> 0, l |-> 0, a |-> x.a]
        dummy == [op |-> "add_child", p |-> 0, l |-> 1, a |-> a.a]
        addA == [op |-> "add_child", p |-> 0, l |-> 0, a |-> a.a]
        rmX == [op |-> "remove_child", p |-> 0, l |-> 1, a |-> a.a]
        \* A has index 2; its subtree is built with fresh indices 1 (reused), 3, 4, ...: build with nxt = 3 and rename the first created index
        subA == BuildOps(a, 2, 3, FALSE)
        \* the first add_child of subA creates index 3 in the renaming-free numbering; in the arena it gets index 1 and all later ones shift down by one
        Ren(i) == IF i = 3 THEN 1 ELSE IF i > 3 THEN i - 1 ELSE i
        opsA == [j \in 1..Len(subA.ops) |-> [subA.ops[j] EXCEPT !.p = Ren(subA.ops[j].p)]]
        b == x.kids[2]
        nB == subA.nxt - 1
        subB == IF b.t = "M" THEN <<>>
                ELSE <<[op |-> "add_child", p |-> 0, l |-> 1, a |-> b.a]>> \o BuildOps(b, nB, nB + 1, FALSE).ops
    IN <<rootop, dummy, addA, rmX>> \o opsA \o subB
ScriptOf(x, K, layout) ==
    LET base == <<[op |-> "from_aff", p |-> 0, l |-> 0, a |-> x.a]>> \o BuildOps(x, 0, 1, layout = "rev").ops
    IN IF layout = "low" /\ K = 2 /\ x.t = "D" /\ x.kids[1].t = "D" /\ (\E j \in 1..2 : x.kids[1].kids[j].t # "M") THEN ScriptLow(x, K)
       ELSE IF layout \notin {"hole", "holed"} \/ Len(base) < 2 THEN base
       ELSE \* after the second op (first child, index 1) add a dummy below it; remove the dummy at the end
            LET d == [op |-> "add_child", p |-> 1, l |-> 0, a |-> base[2].a] IN
            IF x.kids[1].t = "D" \/ (x.kids[1].t = "M" /\ x.kids[2].t = "D") THEN base       \* first child must be a terminal
            ELSE <<base[1], base[2], d>> \o [j \in 1..(Len(base) - 2) |->
                      LET o == base[j + 2] IN [o EXCEPT !.p = IF o.p >= 2 THEN o.p + 1 ELSE o.p]]
                 \* "holed": the dummy is removed with remove_all_descendants(1) instead of remove_child(1, 0)
                 \o <<[op |-> IF layout = "holed" THEN "remove_desc" ELSE "remove_child", p |-> 1, l |-> 0, a |-> base[2].a]>>

RECURSIVE RunOps(_, _, _, _)
RunOps(t, ops, j, K) ==
    IF j > Len(ops) THEN t
    ELSE LET o == ops[j] IN
         RunOps(CASE o.op = "from_aff" -> FromAff(o.a, K)
                  [] o.op = "add_child" -> AddChild(t, o.p, o.l, o.a)
                  [] o.op = "remove_child" -> RemoveChild(t, o.p, o.l)
                  \* remove_all_descendants(p) where the only descendant is the terminal under label l: same effect
                  [] o.op = "remove_desc" -> RemoveChild(t, o.p, o.l), ops, j + 1, K)
BuildTree(x, K, layout) == RunOps(<<>>, ScriptOf(x, K, layout), 1, K)

\* observable projection (what the harness records): nodes without the slab free list
ObsNode(nd) == [p |-> nd.p, ch |-> nd.ch, leaf |-> nd.leaf, m |-> nd.m, b |-> nd.b, q |-> nd.q]
ObsTree(t) == [root |-> t.root, dim |-> t.dim, nodes |-> [i \in Occ(t) |-> ObsNode(t.nodes[i])]]
=============================================================================
