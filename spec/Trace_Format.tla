---------------------------- MODULE Trace_Format ----------------------------
(* Trace validator for family "format" (C19): token streams lexed from the      *)
(* crate's Display / Dot output against the stored values.                        *)
EXTENDS Format, TraceBase

VARIABLES l
vars == <<l>>
V(prop, e, cond, what, sg) == Require(cond, Verdict(prop, e, what, sg))

OptName(o, aspoly) == (IF aspoly THEN "poly" ELSE "func") \o (IF o.sort # 0 THEN "/sorted" ELSE "") \o (IF o.normalize /\ aspoly THEN "/normalized" ELSE "")
                      \o (IF o.axes_lo # [k |-> "inc", v |-> 1] THEN "/skip-axes" ELSE "") \o (IF o.rows_lo # [k |-> "inc", v |-> 1] THEN "/skip-rows" ELSE "")
WhyBlock(e, s) ==
    IF Len(e.lines) = 1 /\ Len(s.rows) = 1 /\ ~(s.options.simplify_taut /\ AllZero(s.rows[1]) /\ s.as = "poly")
    THEN LET toks == e.lines[1]  aspoly == s.as = "poly"
             scale == IF aspoly /\ s.options.normalize /\ ~AllZero(s.rows[1]) THEN MaxAbs(s.rows[1]) ELSE s.den
             k == SplitAt(toks, "leq")
             lin == IF aspoly THEN (IF k > 0 THEN SubSeq(toks, 1, k - 1) ELSE toks) ELSE (IF Len(toks) >= 1 THEN Tail(toks) ELSE toks)
         IN IF aspoly /\ (k = 0 \/ k # Len(toks) - 1) THEN "inequality-shape"
            ELSE IF aspoly /\ ~(NumMatches(toks[Len(toks)], s.bias[1], scale, s.prec) /\ SignMatches(toks[Len(toks)], s.bias[1])) THEN "bias"
            ELSE IF ~aspoly /\ (Len(toks) = 0 \/ ~(NumMatches(toks[1], s.bias[1], s.den, s.prec) /\ SignMatches(toks[1], s.bias[1]))) THEN "bias"
            ELSE WhyLincomb(lin, s.rows[1], scale, s.prec, s.options)
    ELSE "rows"

CheckRows(e) ==
    LET s == e.script  aspoly == s.as = "poly" IN
    /\ V("C19", e, e.res = "ok", "rendering panicked", "rows/panic")
    /\ V("C19", e, e.res # "ok" \/ BlockOK(e.lines, s.rows, s.bias, s.den, s.prec, s.options, aspoly),
         "the rendered text is not faithful: a coefficient is not next to the index of its variable, has the wrong sign / magnitude at the printed precision, the bias or direction is wrong, or something was dropped without an ellipsis",
         "rows/" \o OptName(s.options, aspoly) \o "/" \o WhyBlock(e, s))
    /\ Require(e.res # "ok" \/ e.lines = BlockToks(s.rows, s.bias, s.den, s.prec, s.options, aspoly), Drift(e, "token stream differs from the L1 model of impl_affineformat"))

\* ---------------------------------------------------------------- trees: DOT and Display
DefaultFunc == [sort |-> 0, simplify_zero |-> TRUE, simplify_taut |-> FALSE, normalize |-> FALSE, axes_lo |-> [k |-> "inc", v |-> 20], axes_hi |-> [k |-> "unb", v |-> 0],
                rows_lo |-> [k |-> "inc", v |-> 5], rows_hi |-> [k |-> "unb", v |-> 0]]
DefaultPoly == [sort |-> 5, simplify_zero |-> FALSE, simplify_taut |-> TRUE, normalize |-> TRUE, axes_lo |-> [k |-> "inc", v |-> 20], axes_hi |-> [k |-> "unb", v |-> 0],
                rows_lo |-> [k |-> "inc", v |-> 5], rows_hi |-> [k |-> "unb", v |-> 0]]
ValsOf(v) == [i \in 1..Len(v) |-> <<v[i], FALSE>>]
NodeOf(tr, i) == tr.nodes[CHOOSE n \in 1..Len(tr.nodes) : tr.nodes[n].i = i]
LabelOK(lines, nd) ==
    BlockOK(lines, [r \in 1..Len(nd.m) |-> ValsOf(nd.m[r])], ValsOf(nd.b), nd.q, 2, IF nd.leaf THEN DefaultFunc ELSE DefaultPoly, ~nd.leaf)
EdgesOf(tr) == {x \in {<<tr.nodes[n].i, s - 1, tr.nodes[n].ch[s]>> : n \in 1..Len(tr.nodes), s \in 1..Len(tr.nodes[1].ch)} : x[3] # -1}
Idxs(tr) == {tr.nodes[n].i : n \in 1..Len(tr.nodes)}
NoDot(e) == "nodot" \in DOMAIN e /\ e.nodot          \* DOT export exists for binary trees only (K = 4 events carry the Display text alone)
CheckTree(e) ==
    LET tr == e.tree IN
    /\ V("C19", e, e.res = "ok", "Display / Dot of a tree panicked", "tree/panic")
    /\ V("C19", e, NoDot(e) \/ (Len(e.dot_nodes) = Len(tr.nodes) /\ {e.dot_nodes[n].idx : n \in 1..Len(e.dot_nodes)} = Idxs(tr)),
         "DOT output does not contain exactly one node statement per node", "dot/nodes")
    /\ V("C19", e, \A n \in 1..Len(e.dot_nodes) : e.dot_nodes[n].idx \in Idxs(tr) => LabelOK(e.dot_nodes[n].lines, NodeOf(tr, e.dot_nodes[n].idx)),
         "a DOT node statement is not labelled with the node's own function / predicate", "dot/label")
    /\ V("C19", e, NoDot(e) \/ (Len(e.dot_edges) = Len(tr.nodes) - 1 /\ {<<e.dot_edges[n].src, e.dot_edges[n].label, e.dot_edges[n].dst>> : n \in 1..Len(e.dot_edges)} = EdgesOf(tr)),
         "DOT output does not contain exactly one edge statement per edge with its label", "dot/edges")
    /\ V("C19", e, Len(e.disp_nodes) = Len(tr.nodes) /\ {e.disp_nodes[n].idx : n \in 1..Len(e.disp_nodes)} = Idxs(tr),
         "Display output does not contain exactly one entry per node", "display/nodes")
    /\ V("C19", e, \A n \in 1..Len(e.disp_nodes) : e.disp_nodes[n].idx \in Idxs(tr) =>
            LET nd == NodeOf(tr, e.disp_nodes[n].idx) IN
            /\ e.disp_nodes[n].kind = (IF nd.leaf THEN "T" ELSE "D")
            /\ LabelOK(e.disp_nodes[n].lines, nd)
            /\ e.disp_nodes[n].children = SelectSeq([s \in 1..Len(nd.ch) |-> <<s - 1, nd.ch[s]>>], LAMBDA x : x[2] # -1),
         "a Display entry does not show the node's own kind, function / predicate or children (label->index)", "display/entry")

CheckEvent(e) == IF e.kind = "rows" THEN CheckRows(e) ELSE CheckTree(e)

Init == l = 1
Next == l <= Len(Rec) /\ (CheckEvent(Rec[l]) = TRUE) /\ l' = l + 1
Spec == Init /\ [][Next]_vars
Done == Require(TLCGet("stats").diameter = Len(Rec) + 1, PrintT("INCOMPLETE")) /\ PrintT("DONE " \o ToString(Len(Rec)))
=============================================================================
