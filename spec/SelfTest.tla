------------------------------ MODULE SelfTest ------------------------------
(* Validates the decision procedures of FM.tla before they are trusted as an  *)
(* oracle: on every system of <= 3 constraints over rows {-1,0,1}^2 x {-1,0,1} *)
(* Feas agrees with a search over the 1/4-grid in [-4,4]^2 (fine enough for    *)
(* this alphabet), and MinValue agrees with the grid minimum.                  *)
EXTENDS FM, TLC

VARIABLE sys

Coef == {-1, 0, 1}
RowsA == {Con(<<a, b>>, c, s) : a \in Coef, b \in Coef, c \in Coef, s \in BOOLEAN}
Closed1 == {c \in RowsA : ~c.s}
Strict1 == {c \in RowsA : c.s}
Systems == {{c} : c \in RowsA} \cup {{c, e} : c \in RowsA, e \in RowsA}
           \cup {{c, e, f} : c \in Closed1, e \in Closed1, f \in Closed1}
           \cup {{c, e, f} : c \in Strict1, e \in Strict1, f \in Strict1}

Grid == {<<x, y>> : x \in -16..16, y \in -16..16}        \* scaled by 4
GridFeas(C) == \E p \in Grid : SatAll(C, p, 4)

Objs == {<<1, 0>>, <<0, 1>>, <<1, 1>>, <<-1, 1>>}
MinOK(C, o) ==
    LET r == MinValue(C, o, 2) IN
    CASE r.st = "inf" -> ~GridFeas(Closed(C))
      [] r.st = "unb" -> Feas(Closed(C) \cup {Le(o, -1000)}, 2)
      [] r.st = "opt" -> /\ \A p \in Grid : SatAll(Closed(C), p, 4) => Dot(o, p) * r.den >= r.num * 4
                         /\ ~Feas(Closed(C) \cup {Lt(Scale(r.den, o), r.num)}, 2)
                         /\ Feas(Closed(C) \cup {Le(Scale(r.den, o), r.num)}, 2)

Init == sys \in {{c} : c \in RowsA}
Next == \E c \in RowsA \ sys :
            /\ Cardinality(sys) < 3
            /\ Cardinality(sys) = 2 => \A e \in sys : e.s = c.s
            /\ sys' = sys \cup {c}
Spec == Init /\ [][Next]_sys

FeasAgreesWithGrid == Feas(sys, 2) <=> GridFeas(sys)
InteriorOK == HasInterior(sys, 2) => Feas(sys, 2) \/ \E c \in sys : c.s
MinAgrees == \A o \in Objs : MinOK(sys, o)
SubsetRefl == Subset(sys, sys, 2)
=============================================================================
