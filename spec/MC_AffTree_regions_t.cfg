SPECIFICATION Spec
CONSTANTS
  MODE = "regions"
  K = 2
  NF = 3
  NG = 2
  PF = "p2a"
  TF = "t22s"
  PG = "p2a"
  TG = "t22s"
  LAYOUTS = {"rev"}
  EMIT = TRUE
VIEW View
INVARIANTS LawRegions
ACTION_CONSTRAINT Emit
CHECK_DEADLOCK FALSE
