SPECIFICATION Spec
CONSTANTS
  MODE = "prunedeep"
  K = 2
  NF = 1
  NG = 0
  PF = "p1s"
  TF = "t12o"
  PG = "p2x"
  TG = "t22s"
  LAYOUTS = {"dfs"}
  EMIT = TRUE
VIEW View
INVARIANTS LawPrune LawCache ResultWellFormed
ACTION_CONSTRAINT Emit
CHECK_DEADLOCK FALSE
