SPECIFICATION Spec
CONSTANTS
  MODE = "prune"
  K = 2
  NF = 2
  NG = 0
  PF = "p2x"
  TF = "t22s"
  PG = "p2x"
  TG = "t22s"
  LAYOUTS = {"dfs"}
  EMIT = TRUE
VIEW View
INVARIANTS LawPrune LawCache LawEffective ResultWellFormed
ACTION_CONSTRAINT Emit
CHECK_DEADLOCK FALSE
