SPECIFICATION Spec
CONSTANTS
  MODE = "prune"
  K = 2
  NF = 3
  NG = 0
  PF = "p1y"
  TF = "t12"
  PG = "p1y"
  TG = "t11s"
  LAYOUTS = {"dfs", "low"}
  EMIT = TRUE
VIEW View
INVARIANTS LawPrune LawCache LawEffective ResultWellFormed
ACTION_CONSTRAINT Emit
CHECK_DEADLOCK FALSE
