----------------------------- MODULE Traversal -----------------------------
(* Cursors of affinitree::tree::iter (DfsPre, DfsEdge, Bfs) as state machines *)
(* (L1), the reference traversals they must produce (L0), and the tree        *)
(* metrics of tree::graph.  Trees are ArenaTree states.                       *)
EXTENDS ArenaTree

\* children of node i in ascending label order, as a sequence of [l |-> label (0-based), c |-> child]
KidsSeq(t, i) ==
    LET nd == t.nodes[i]
        labs == SelectSeq([k \in 1..Len(nd.ch) |-> k], LAMBDA k : nd.ch[k] # NONE)
    IN [j \in 1..Len(labs) |-> [l |-> labs[j] - 1, c |-> nd.ch[labs[j]]]]
Reverse(s) == [j \in 1..Len(s) |-> s[Len(s) + 1 - j]]
SubtreeSize(t, i) == Cardinality(Subtree(t, i))

RECURSIVE SumSizes(_, _, _)
SumSizes(t, items, n) == IF n = 0 THEN 0 ELSE SubtreeSize(t, items[n].idx) + SumSizes(t, items, n - 1)

NoItem == [none |-> TRUE]

(* ------------------------------------------------------------------ L1 cursors *)
(* cursor = [kind, st : Seq(entry), last : Nat, lb : Nat, ub : Nat]                 *)
(* node entry = [depth, idx, rem] ; edge entry = [depth, src, label, idx]            *)
NewCursor(kind, t, start) ==
    LET len == Cardinality(Occ(t))
        atroot == start = t.root
    IN CASE kind \in {"dfs", "bfs"} ->
              [kind |-> kind, st |-> <<[depth |-> 0, idx |-> start, rem |-> 0]>>, last |-> 0,
               lb |-> IF atroot THEN len ELSE 0, ub |-> len]
         [] kind = "edge" ->
              LET ks == KidsSeq(t, start)
              IN [kind |-> kind,
                  st |-> Reverse([j \in 1..Len(ks) |-> [depth |-> 1, src |-> start, label |-> ks[j].l, idx |-> ks[j].c]]),
                  last |-> 0,
                  lb |-> IF atroot /\ len > 0 THEN len - 1 ELSE 0, ub |-> IF len > 0 THEN len - 1 ELSE 0]

Pred(n) == IF n > 0 THEN n - 1 ELSE 0

\* -> [c |-> cursor', item |-> item or NoItem]
NextStep(t, c) ==
    IF c.st = <<>> THEN [c |-> c, item |-> NoItem]
    ELSE
    CASE c.kind = "dfs" ->
           LET e == c.st[Len(c.st)]
               ks == KidsSeq(t, e.idx)
               push == Reverse([j \in 1..Len(ks) |-> [depth |-> e.depth + 1, idx |-> ks[j].c, rem |-> Len(ks) - j]])
           IN [c |-> [c EXCEPT !.st = SubSeq(c.st, 1, Len(c.st) - 1) \o push, !.last = Len(ks), !.lb = Pred(c.lb), !.ub = Pred(c.ub)],
               item |-> [none |-> FALSE, depth |-> e.depth, idx |-> e.idx, rem |-> e.rem]]
      [] c.kind = "bfs" ->
           LET e == c.st[1]
               ks == KidsSeq(t, e.idx)
               push == [j \in 1..Len(ks) |-> [depth |-> e.depth + 1, idx |-> ks[j].c, rem |-> Len(ks) - j]]
           IN [c |-> [c EXCEPT !.st = Tail(c.st) \o push, !.last = Len(ks), !.lb = Pred(c.lb), !.ub = Pred(c.ub)],
               item |-> [none |-> FALSE, depth |-> e.depth, idx |-> e.idx, rem |-> e.rem]]
      [] c.kind = "edge" ->
           LET e == c.st[Len(c.st)]
               ks == KidsSeq(t, e.idx)
               push == Reverse([j \in 1..Len(ks) |-> [depth |-> e.depth + 1, src |-> e.idx, label |-> ks[j].l, idx |-> ks[j].c]])
           IN [c |-> [c EXCEPT !.st = SubSeq(c.st, 1, Len(c.st) - 1) \o push, !.last = Len(ks), !.lb = Pred(c.lb), !.ub = Pred(c.ub)],
               item |-> [none |-> FALSE, src |-> e.src, label |-> e.label, dest |-> e.idx]]

\* skip_subtree: drop the entries pushed by the last next(); a second call is a no-op
SkipStep(c) ==
    LET n == Len(c.st) - c.last
        st2 == SubSeq(c.st, 1, n)       \* the pushed entries are at the end for all three kinds
    IN [c EXCEPT !.st = st2, !.last = 0, !.lb = Len(st2), !.ub = IF c.ub >= c.last THEN c.ub - c.last ELSE 0]

\* number of items a plain next() loop would still yield from this cursor state
Remaining(t, c) == SumSizes(t, c.st, Len(c.st))

(* ------------------------------------------------------------------ L0 reference traversals *)
(* skip = set of node indices whose descendants are omitted                                      *)
RECURSIVE RefDfs(_, _, _, _, _)
RefDfs(t, i, depth, rem, skip) ==
    LET ks == KidsSeq(t, i)
        RECURSIVE Kids(_)
        Kids(j) == IF j > Len(ks) THEN <<>> ELSE RefDfs(t, ks[j].c, depth + 1, Len(ks) - j, skip) \o Kids(j + 1)
    IN <<[none |-> FALSE, depth |-> depth, idx |-> i, rem |-> rem]>> \o (IF i \in skip THEN <<>> ELSE Kids(1))

RECURSIVE RefEdges(_, _, _)
RefEdges(t, i, skip) ==
    LET ks == KidsSeq(t, i)
        RECURSIVE Kids(_)
        Kids(j) == IF j > Len(ks) THEN <<>>
                   ELSE <<[none |-> FALSE, src |-> i, label |-> ks[j].l, dest |-> ks[j].c]>>
                        \o (IF ks[j].c \in skip THEN <<>> ELSE RefEdges(t, ks[j].c, skip)) \o Kids(j + 1)
    IN Kids(1)

\* breadth first: level by level, children by ascending label, parents in the order of the previous level
RECURSIVE RefBfsLevels(_, _, _)
RefBfsLevels(t, level, skip) ==
    IF level = <<>> THEN <<>>
    ELSE LET RECURSIVE NextLevel(_)
             NextLevel(j) ==
                IF j > Len(level) THEN <<>>
                ELSE LET ks == KidsSeq(t, level[j].idx)
                     IN (IF level[j].idx \in skip THEN <<>>
                         ELSE [q \in 1..Len(ks) |-> [none |-> FALSE, depth |-> level[j].depth + 1, idx |-> ks[q].c, rem |-> Len(ks) - q]])
                        \o NextLevel(j + 1)
         IN level \o RefBfsLevels(t, NextLevel(1), skip)
RefBfs(t, start, skip) == RefBfsLevels(t, <<[none |-> FALSE, depth |-> 0, idx |-> start, rem |-> 0]>>, skip)

Ref(kind, t, start, skip) ==
    CASE kind = "dfs" -> RefDfs(t, start, 0, 0, skip)
      [] kind = "bfs" -> RefBfs(t, start, skip)
      [] kind = "edge" -> RefEdges(t, start, skip)

ItemNode(kind, it) == IF kind = "edge" THEN it.dest ELSE it.idx

(* ------------------------------------------------------------------ metrics *)
RECURSIVE DepthOf(_, _)
DepthOf(t, i) == IF t.nodes[i].p = NONE THEN 0 ELSE 1 + DepthOf(t, t.nodes[i].p)
TreeDepth(t) == IF Occ(t) = {} THEN 0 ELSE CHOOSE d \in {DepthOf(t, i) : i \in Occ(t)} : \A i \in Occ(t) : DepthOf(t, i) <= d
RECURSIVE PathTo(_, _)
PathTo(t, i) ==
    IF t.nodes[i].p = NONE THEN <<>>
    ELSE LET p == t.nodes[i].p
             l == CHOOSE s \in 1..Len(t.nodes[p].ch) : t.nodes[p].ch[s] = i
         IN Append(PathTo(t, p), <<p, l - 1>>)
SortedSeq(S) ==
    LET RECURSIVE Go(_)
        Go(R) == IF R = {} THEN <<>> ELSE LET m == CHOOSE x \in R : \A y \in R : x <= y IN <<m>> \o Go(R \ {m})
    IN Go(S)
\* computed from the links, not from the stored flag: a terminal is a node without children
Terminals(t) == {i \in Occ(t) : NumChildren(t.nodes[i]) = 0}
Decisions(t) == {i \in Occ(t) : NumChildren(t.nodes[i]) > 0}
=============================================================================
