---------------------------- MODULE Trace_Arena ----------------------------
(* Trace validator for family "arena" (property C12).                         *)
(* Each event carries the projected implementation state before and after     *)
(* one call of Tree<N,K>.  The property formulas of C12 are evaluated on       *)
(* (pre, op, post); the documented effect of a successful call is the L1       *)
(* action of ArenaTree with the slab key bound to the index the implementation *)
(* returned, so the check is independent of the allocation order.              *)
(* Invariants are checked inductively (pre consistent => post consistent), so  *)
(* a violation is attributed to the call that caused it and is not repeated    *)
(* for every later state of the same history.                                  *)
EXTENDS ArenaTree, TraceBase

VARIABLES l, cur
vars == <<l, cur>>

ToTree(j) ==
    LET idx == {j.nodes[n].i : n \in 1..Len(j.nodes)}
        At(i) == j.nodes[CHOOSE n \in 1..Len(j.nodes) : j.nodes[n].i = i]
    IN [nodes |-> [i \in idx |-> [v |-> At(i).v, p |-> At(i).p, ch |-> At(i).ch, leaf |-> At(i).leaf]],
        root |-> j.root, free |-> <<>>, slen |-> 1000000]
WithKey(t, k) == [t EXCEPT !.free = <<k>>]

Model(e, pre) ==
    LET o == e.op  K == e.k  t == WithKey(pre, e.ret) IN
    CASE o.op = "add_root" -> AddRoot(t, o.v, K)
      [] o.op = "add_child" -> AddChild(t, o.p, o.l, o.v, K)
      [] o.op = "try_remove_child" -> TryRemoveChild(t, o.p, o.l, K)
      [] o.op = "remove_child" -> (LET r == TryRemoveChild(t, o.p, o.l, K) IN IF r.res = "err" THEN Panic(t) ELSE r)
      [] o.op = "remove_all_descendants" -> RemoveAllDesc(t, o.p)
      [] o.op = "merge_child" -> MergeChild(t, o.p, o.l, K)
      [] o.op = "update_node" -> UpdateNode(t, o.p, o.v)

\* the query API answers what the links of the recorded post-state say (the accessors are read on every index and one vacant one)
Rev(s) == [k \in 1..Len(s) |-> s[Len(s) + 1 - k]]
AccNames == {"contains", "is_root", "is_leaf", "value", "value_mut", "nchild", "tnode_mut", "tnode2", "parent", "parent_mut", "child", "child_mut",
             "children", "children_rev", "node_children", "is_empty", "changed"}
AccHolds(nm, e, t) ==
    LET rows == e.acc.rows IN
    CASE nm = "is_empty" -> e.acc.is_empty = (Occ(t) = {})
      [] nm = "changed" -> ~e.acc.changed
      [] OTHER -> \A n \in 1..Len(rows) :
            LET a == rows[n]  i == a.i  K == e.k IN
            CASE nm = "contains" -> a.contains = QContains(t, i)
              [] nm = "is_root" -> a.is_root = QIsRoot(t, i)
              [] nm = "is_leaf" -> a.is_leaf = QIsLeaf(t, i)
              [] nm = "value" -> a.value = QValue(t, i)
              [] nm = "value_mut" -> a.value_mut = QValue(t, i)
              [] nm = "tnode_mut" -> a.tnode_mut = QValue(t, i)
              [] nm = "tnode2" -> (i = t.root /\ a.tnode2 = QScalar("ok", -2)) \/ (i # t.root /\ a.tnode2 = QValue(t, i))
              [] nm = "nchild" -> a.nchild = QNumChildren(t, i)
              [] nm = "parent" -> a.parent = QParent(t, i)
              [] nm = "parent_mut" -> a.parent_mut = QParent(t, i)
              [] nm = "child" -> \A lb \in 1..K : a.child[lb] = QChild(t, i, lb - 1)
              [] nm = "child_mut" -> \A lb \in 1..K : a.child_mut[lb] = QChild(t, i, lb - 1)
              [] nm = "children" -> a.children = QChildren(t, i)
              [] nm = "children_rev" -> LET q == QChildren(t, i) IN a.children_rev.res = q.res /\ a.children_rev.list = Rev([k \in 1..Len(q.list) |-> <<q.list[k].src, q.list[k].label, q.list[k].dst>>])
              [] nm = "node_children" -> LET q == QChildren(t, i) IN
                    IF i \notin Occ(t) THEN a.node_children.res = "err"
                    ELSE a.node_children.res = "ok" /\ a.node_children.list = [k \in 1..Len(SelectSeq(t.nodes[i].ch, LAMBDA c : c # NONE)) |->
                            LET ls == {s \in 1..K : t.nodes[i].ch[s] # NONE /\ Cardinality({u \in 1..s : t.nodes[i].ch[u] # NONE}) = k} IN
                            <<(CHOOSE s \in ls : TRUE) - 1, t.nodes[i].ch[CHOOSE s \in ls : TRUE]>>]
CheckAcc(e, post) ==
    "acc" \notin DOMAIN e \/ \A nm \in AccNames :
        Require(AccHolds(nm, e, post), Verdict("C12", e, "accessor " \o nm \o " does not answer what the links of the tree say after " \o e.op.op, "acc/" \o nm))

Inserting(e) == e.op.op \in {"add_root", "add_child"}
Rerooted(e) == (e.op.op = "add_root" /\ e.pre.len > 0) \/ ("orphans" \in DOMAIN e /\ e.orphans)

CheckEvent(e) ==
    LET pre == ToTree(e.pre)
        post == ToTree(e.post)
        preOK == LinksMirror(pre) /\ LeafFlags(pre) /\ ChildAcyclic(pre)       \* the model is only evaluated on consistent pre-states
        m == Model(e, pre)
        sig == e.op.op \o "/" \o e.res
    IN
    /\ Require(~(LinksMirror(pre) /\ LeafFlags(pre)) \/ (LinksMirror(post) /\ LeafFlags(post)),
               Verdict("C12", e, "links do not mirror or leaf flag wrong after " \o e.op.op, sig \o "/links"))
    /\ Require(~ChildAcyclic(pre) \/ ChildAcyclic(post),
               Verdict("C12", e, "child links form a cycle after " \o e.op.op, sig \o "/cycle"))
    /\ Require(Rerooted(e) \/ ~(OneRoot(pre) /\ AllReachable(pre) /\ LenIsReachable(pre, e.pre.len))
                   \/ (OneRoot(post) /\ AllReachable(post) /\ LenIsReachable(post, e.post.len)),
               Verdict("C12", e, "stored node unreachable / len differs from reachable count after " \o e.op.op, sig \o "/reach"))
    /\ Require(e.res # "err" \/ (Obs(post) = Obs(pre) /\ e.post.len = e.pre.len),
               Verdict("C12", e, "operation returned an error but changed the tree: " \o e.op.op, sig \o "/errchg"))
    /\ Require(~preOK \/ ~(e.res = "ok" /\ m.res = "ok") \/ Obs(m.t) = Obs(post),
               Verdict("C12", e, "survivors do not keep index/value or wrong nodes removed/added by " \o e.op.op, sig \o "/effect"))
    /\ Require(~(e.res = "ok" /\ Inserting(e)) \/ e.ret \notin Occ(pre),
               Verdict("C12", e, "returned index was already occupied", sig \o "/retocc"))
    /\ Require(~preOK \/ e.res # "panic" \/ m.res = "panic",
               Verdict("C12", e, "operation panicked where its documentation promises a result (ok or an error value): " \o e.op.op, sig \o "/panic"))
    /\ CheckAcc(e, post)
    /\ Require(~preOK \/ e.res = m.res, Drift(e, "result " \o e.res \o " but model " \o m.res \o " for " \o e.op.op))
    /\ Require(e.exp.res = "none" \/ ~Inserting(e) \/ e.res # "ok" \/ e.exp.ret = e.ret,
               Drift(e, "allocated index differs from slab model"))

Init == l = 1 /\ cur = [none |-> TRUE]
Next ==
    /\ l <= Len(Rec)
    /\ LET e == Rec[l] IN
        /\ (Require(e.first \/ cur = e.pre, Note("CONTINUITY", e, "recorded pre-state differs from previous post-state")) = TRUE)
        /\ (CheckEvent(e) = TRUE)          \* "= TRUE": evaluated as an expression (short-circuit), not split as an action
        /\ cur' = e.post
    /\ l' = l + 1
Spec == Init /\ [][Next]_vars

Done == Require(TLCGet("stats").diameter = Len(Rec) + 1, PrintT("INCOMPLETE")) /\ PrintT("DONE " \o ToString(Len(Rec)))
=============================================================================
