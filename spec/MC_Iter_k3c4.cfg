SPECIFICATION Spec
CONSTANTS
  K = 3
  CAP = 4
  EMIT = TRUE
  DOUBLESKIP = FALSE
VIEW View
INVARIANTS ItemsArePrefix RunComplete Bracket RemainingIsRef TreeOK
ACTION_CONSTRAINT Emit
CHECK_DEADLOCK FALSE
