SPECIFICATION Spec
CONSTANTS
  MODE = "arithdeep"
  K = 2
  NF = 0
  NG = 4
  PF = "p1v"
  TF = "t11p"
  PG = "p1v"
  TG = "t11q"
  LAYOUTS = {"dfs"}
  EMIT = TRUE
VIEW View
INVARIANTS LawArith ResultWellFormed
ACTION_CONSTRAINT Emit
CHECK_DEADLOCK FALSE
