SPECIFICATION Spec
CONSTANTS
  MODE = "arithaff"
  K = 2
  NF = 2
  NG = 0
  PF = "p2s"
  TF = "t22e"
  PG = "p2s"
  TG = "t22d"
  LAYOUTS = {"dfs", "hole", "low"}
  EMIT = TRUE
VIEW View
INVARIANTS LawArithAff ResultWellFormed
ACTION_CONSTRAINT Emit
CHECK_DEADLOCK FALSE
