---------------------------- MODULE Trace_Linalg ----------------------------
(* Trace validator for family "linalg": constructors, transformations and        *)
(* clean-ups of polytopes (C14, C15), the affine algebra (C16), the LP layer       *)
(* (C10) and mirror_points (C05), recorded from the real crate.                    *)
EXTENDS Linalg, TraceBase

M == INSTANCE MC_Linalg WITH MODE <- "none", NP <- 0, EMIT <- FALSE, stage <- "init", reg <- [none |-> TRUE], prev <- [none |-> TRUE],
                              hist <- [none |-> TRUE], last <- [none |-> TRUE]

VARIABLES l
vars == <<l>>
IsNone(j) == "none" \in DOMAIN j
V(prop, e, cond, what, sg) == Require(cond, Verdict(prop, e, what, sg))
WQ == 100000
SumAbs(v) == LET RECURSIVE G(_) G(n) == IF n = 0 THEN 0 ELSE Abs(v[n]) + G(n - 1) IN G(Len(v))
\* a.w <= b for a point logged at scale WQ (rounding budget as in Trace_AffTree)
SatTol(c, ws, q) == Dot(c.a, ws) <= c.b * WQ + SumAbs(c.a) + q

\* ---------------------------------------------------------------- polytopes: constructors (C14)
CheckCtor(e) ==
    LET c == e.arg  p == e.post  nm == c.ctor IN
    /\ V("C14", e, IF nm = "simplex" THEN M!SimplexOK(p, 3, 2) ELSE (~p.ex \/ SetEq(Cons(p), M!Def(c), p.n)),
         "constructor " \o nm \o " does not contain exactly the points of its definition", "ctor/" \o nm)
    /\ V("C14", e, ~p.ex \/ \A k \in 1..Len(e.contains) :
            e.contains[k][2] = SatAll(IF nm = "simplex" THEN Cons(p) ELSE M!Def(c), e.contains[k][1], 2),
         "contains() disagrees with the definition of " \o nm \o " at a grid point (boundary points included)", "contains/" \o nm)
    /\ V("C14", e, Len(e.dist) = 0 \/ \A r \in 1..Len(e.dist) :
            LET dv == e.dist[r]
                raw == p.b[r] * c.dist_den - Dot(p.m[r], c.dist_at)                  \* (b - a.x) scaled by q * den; |a| = n2 / q, so distance = raw / (den * n2)
            IN IF IsZero(p.m[r]) THEN (raw = 0 \/ dv.k = (IF raw > 0 THEN "inf" ELSE "-inf"))     \* all points inside: +inf, no point inside: -inf (0/0 excluded)
               ELSE /\ ((dv.k = "num" /\ Sign(dv.v) = Sign(raw)) \/ (raw = 0 /\ Abs(dv.v) <= 1))
                    /\ (\A n2 \in 1..20 : Dot(p.m[r], p.m[r]) = n2 * n2 => Abs(dv.v * n2 * c.dist_den - raw * WQ) <= n2 * c.dist_den),
         "distance() has the wrong sign or magnitude for a non-zero row", "distance/" \o nm)

\* distance_raw(x) = b - A x for every row (what distance() normalises and contains() compares with the tolerance);
\* distances_raw (matrix form) is compared column by column where it returns at all: on the current tree it panics unless the
\* number of points equals the number of rows (a broadcast of the bias against the point matrix) - outside the listed properties, noted
CheckRaw(e) ==
    LET p == e.post IN
    "raw" \notin DOMAIN e \/
    /\ V("C14", e, ~p.ex \/ \A k \in 1..Len(e.raw.single) :
            LET x == e.raw.single[k][1] IN e.raw.single[k][2] = [r \in 1..Len(p.m) |-> p.b[r] * 2 - Dot(p.m[r], x)],
         "distance_raw(x) differs from b - A x at a grid point", "distance_raw/" \o e.arg.ctor)
    \* not a verdict: C14 speaks about distance(); the matrix form is only recorded (see DESIGN.md, observations outside the properties)
    /\ Require(~p.ex \/ (e.raw.multi.res = "ok" /\ \A k \in 1..Len(e.raw.single) : k <= Len(e.raw.multi.cols) /\ e.raw.multi.cols[k] = e.raw.single[k][2]),
               Note("OUTOFSCOPE", e, "distances_raw (matrix form) panics or differs from distance_raw column by column"))

\* ---------------------------------------------------------------- polytopes: transformations (C14)
CheckStep14(e) ==
    LET p == e.pre  r == e.post  s == e.arg
        ok == CASE s.op = "translate" -> SetEq(Cons(r), TranslateDef(p, s.d, s.q), p.n)
                [] s.op = "intersection" -> SetEq(Cons(r), Cons(p) \cup Cons(s.p2), p.n)
                [] s.op = "intersection_n" -> SetEq(Cons(r), Cons(p) \cup Cons(s.ps[1]) \cup Cons(s.ps[2]), p.n)
                [] s.op = "apply_pre" -> SetEq(Cons(r), ApplyPreDef(p, s.f), p.n)
                [] s.op = "apply_post" -> SetEq(ApplyPreDef(r, A(s.m, s.c, p.n)), Cons(p), p.n)
                [] s.op = "rotate" -> SetEq(ApplyPreDef(r, A(s.r, ZeroVec(p.n), p.n)), Cons(p), p.n)
    IN /\ V("C14", e, ~r.ex \/ ~p.ex \/ (r.n = p.n /\ ok), s.op \o " does not produce exactly the documented point set", "step/" \o s.op)
       /\ V("C14", e, ~r.ex \/ \A k \in 1..Len(e.contains) : e.contains[k][2] = Member(r, e.contains[k][1], 2),
            "contains() of the result of " \o s.op \o " disagrees with its rows at a grid point", "contains-step/" \o s.op)

\* ---------------------------------------------------------------- clean-up (C15)
RowPairs(p) == [i \in 1..Len(p.m) |-> <<p.m[i], p.b[i]>>]
WholeSpace(p) == \A i \in 1..Len(p.m) : IsTautRow(p, i)
Without(p, i) == {Le(p.m[j], p.b[j]) : j \in (1..Len(p.m)) \ {i}}
ImpliedByMargin(p, i) ==
    LET mv == MaxValue(Without(p, i), p.m[i], p.n)
    IN mv.st = "opt" /\ mv.num < p.b[i] * mv.den
CheckClean(e) ==
    LET p == e.pre  r == e.post  s == e.arg  op == s.op
        feas == Feas(Cons(p), p.n)
    IN
    IF op = "remove_rows"
    THEN V("C15", e, RowPairs(r) = RowPairs(RemoveRows(p, SeqToSet(s.rows))), "remove_rows did not drop exactly the requested rows", "remove_rows/exact")
    ELSE
    /\ V("C15", e, ~r.ex \/ (r.n = p.n /\ (SetEq(Cons(r), Cons(p), p.n) \/ (~feas /\ ~Feas(Cons(r), p.n)))),
         op \o " changed which points satisfy the polytope", op \o "/set")
    /\ V("C15", e, ~r.ex \/ (IF op = "normalize" THEN Len(r.m) = Len(p.m) /\ SubSeqUpToPos(r, p, 1, 1)
                               ELSE IsSubSeq(RowPairs(r), RowPairs(p), 1, 1))
                        \/ (CanonicalEmpty(r) /\ ~feas) \/ (CanonicalUnbounded(r) /\ WholeSpace(p)),
         op \o ": the result is not a subsequence of the original rows", op \o "/subseq")
    /\ V("C15", e, op # "remove_redundant" \/ ~r.ex \/ ~feas \/ \A i \in 1..Len(r.m) : ~ImpliedByMargin(r, i),
         "remove_redundant_row_constraints left a row that is implied by the remaining rows by a margin", "remove_redundant/left-" \o
            (IF \E i \in 1..Len(r.m) : ImpliedByMargin(r, i) /\ IsZero(r.m[i]) THEN "zero-row" ELSE "row"))
    /\ V("C15", e, op # "remove_tautologies" \/ ~feas \/ CanonicalUnbounded(r) \/ \A i \in 1..Len(r.m) : ~IsTautRow(r, i), "remove_tautologies left a tautology", "remove_tautologies/left")
    /\ V("C15", e, op # "remove_zero_rows" \/ \A i \in 1..Len(r.m) : ~(IsZero(r.m[i]) /\ r.b[i] = 0), "remove_zero_rows left a zero row", "remove_zero_rows/left")
    /\ V("C15", e, op # "remove_duplicate_rows" \/ \A i, j \in 1..Len(r.m) : i = j \/ ~SameRowUpToPos(r.m[i], r.b[i], r.m[j], r.b[j]) \/ IsZero(r.m[i]),
         "remove_duplicate_rows left two rows that are positive multiples of each other", "remove_duplicate_rows/left")

CheckPoly(e) ==
    IF e.res = "panic" THEN
        V(IF e.op \in M!CleanOps THEN "C15" ELSE "C14", e, FALSE, "polytope operation panicked: " \o e.op, e.op \o "/panic")
    ELSE IF ~e.post.ex THEN Note("INEXACT", e, "result not representable at the trace scale: exact comparison skipped for " \o e.op)
    ELSE IF e.op = "ctor" THEN CheckCtor(e) /\ CheckRaw(e)
    ELSE IF e.op \in M!CleanOps THEN CheckClean(e)
    ELSE CheckStep14(e)

\* ---------------------------------------------------------------- affine algebra (C16)
Expected(s) ==
    CASE s.op = "ctor" -> M!AffCtorDef(s.ctor)
      [] s.op = "compose" -> Compose(s.f, s.g)
      [] s.op = "stack" -> Stack(s.f, s.g)
      [] s.op = "add" -> AddF(s.f, s.g) [] s.op = "sub" -> SubF(s.f, s.g) [] s.op = "mul" -> MulF(s.f, s.g)
      [] s.op = "div" -> DivF(s.f, s.g) [] s.op = "rem" -> RemF(s.f, s.g)
      [] s.op = "neg" -> NegF(s.f)
      [] s.op = "row" -> Row(s.f, s.row)
      [] s.op = "reset_row" -> ResetRow(s.f, s.row)
      [] s.op = "remove_rows" -> RemoveRows(s.f, SeqToSet(s.rows))
      [] s.op = "remove_zero_rows" -> RemoveZeroRows(s.f)
      [] s.op = "remove_zero_columns" -> RemoveZeroColumns(s.f)
      [] s.op = "rzc_rzr" -> RemoveZeroRows(RemoveZeroColumns(s.f))            \* the two clean-ups in a row (a function without inputs in between)
      [] s.op \in {"from_row_iter", "view_owned", "as_polytope", "as_function"} -> s.f
      [] s.op = "convert_to" -> ConvertTo(s.f, s.repr)
CheckAff(e) ==
    LET s == e.script  o == e.out  sg == s.op \o (IF s.op = "ctor" THEN "/" \o s.ctor.ctor ELSE "") IN
    IF e.res = "panic" THEN V("C16", e, FALSE, "affine operation panicked: " \o sg, sg \o "/panic")
    ELSE CASE s.op \in {"add", "sub", "mul", "div", "rem"} ->
                V("C16", e, \A v \in {o.rr, o.oo, o.or} : ~v.ex \/ SameAff(v, Expected(s)), s.op \o " is not the coefficient-wise operation in some ownership variant", sg)
           [] s.op = "neg" -> V("C16", e, \A v \in {o.o, o.r, o.negate} : SameAff(v, Expected(s)), "negation is not coefficient-wise", sg)
           [] s.op = "row_iter" -> V("C16", e, Len(o) = Len(s.f.m) /\ \A r \in 1..Len(o) : SameAff(o[r], Row(s.f, r - 1)), "row_iter does not yield the rows in order", sg)
           [] s.op = "apply" -> V("C16", e, \A k \in 1..Len(o) : o[k][2] = Scale(e.q, Apply(s.f, o[k][1], s.den)), "apply(x) differs from M x + c", sg)
           [] s.op = "apply_transpose" -> V("C16", e, \A k \in 1..Len(o) : o[k][2] = Scale(e.q, ApplyTranspose(s.f, o[k][1], s.den)), "apply_transpose(x) differs from M^T (x - c)", sg)
           [] s.op = "views" -> V("C16", e, SameAff(o.f, s.f) /\ o.indim = s.f.n /\ o.outdim = Len(s.f.m) /\ o.ncons = Len(s.f.m),
                                  "matrix_view / bias_view / indim / outdim / n_constraints do not describe the stored function", sg)
           [] s.op = "convert_to" ->
                /\ V("C16", e, SameAff(o, Expected(s)), "convert_to(" \o s.repr \o ") coefficients differ from the documented representation", sg \o "/" \o s.repr)
                /\ V("C16", e, SetEq(ReprCons(o, s.repr), Cons(s.f), s.f.n), "convert_to(" \o s.repr \o ") does not denote the same half-spaces", sg \o "/" \o s.repr)
           [] s.op = "compose" ->
                /\ V("C16", e, ~o.ex \/ SameAff(o, Expected(s)), "compose(f, g) coefficients differ from (F G, F c_g + c_f)", sg)
                /\ V("C16", e, ~o.ex \/ \A x \in M!AffGridD(s.g.n) : Scale(s.f.q * s.g.q, Apply(o, x, 1)) = Scale(o.q, Apply(s.f, Apply(s.g, x, 1), 1)),
                     "compose(f, g)(x) differs from f(g(x)) at a grid point", sg \o "/grid")
           [] OTHER -> /\ V("C16", e, ~o.ex \/ SameAff(o, Expected(s)), sg \o " does not compute what its documentation states", sg)
                       /\ V("C16", e, "alt" \notin DOMAIN o \/ SameAff(o.alt, Expected(s)), sg \o " depends on the memory layout of the matrix it is given", sg \o "/layout")

\* ---------------------------------------------------------------- LP layer (C10)
\* objective value of a logged point: c.w scaled by WQ
ObjAt(c, w) == Dot(c, w)
CheckLpEvent(e) ==
    LET p == e.p  Pc == Cons(p)  n == p.n  c == e.c
        interior == HasInterior(Pc, n)
        feas == Feas(Pc, n)
        mv == MinValue(Pc, c, n)
        InP(w) == ~w.ok \/ \A k \in Pc : SatTol(k, w.p, p.q)
    IN
    /\ V("C10", e, e.status.st \in {"I", "O", "U"} /\ (e.status.st = "I" => ~interior) /\ (interior => e.status.st # "I") /\ (~feas => e.status.st = "I"),
         "status(): infeasible verdict on a polytope with interior, or feasible verdict on an empty one", "status/" \o e.status.st)
    /\ V("C10", e, e.status.st # "O" \/ InP(e.status.w), "status() returned a witness outside the polytope", "status/witness")
    /\ V("C10", e, (e.is_feasible = 0 => ~interior) /\ (e.is_feasible = 1 => feas) /\ e.is_feasible # 2, "is_feasible() is wrong or panicked", "is_feasible")
    /\ V("C10", e, CASE e.solve.st = "I" -> ~interior
                     [] e.solve.st = "U" -> feas /\ mv.st = "unb"
                     [] e.solve.st = "O" -> /\ InP(e.solve.w) /\ mv.st = "opt"
                                            /\ (~e.solve.w.ok \/ Abs(ObjAt(c, e.solve.w.p) * mv.den - mv.num * WQ) <= mv.den * (SumAbs(c) + 1))
                     [] OTHER -> FALSE,
         "solve_linprog: " \o (CASE e.solve.st = "U" -> (IF mv.st = "opt" THEN "reports unbounded although the minimum exists" ELSE "reports unbounded on an empty set")
                                  [] e.solve.st = "O" -> "returned point is outside the set or not optimal"
                                  [] e.solve.st = "I" -> "reports infeasible on a set with interior" [] OTHER -> "error / panic"),
         "solve/" \o e.solve.st \o "-" \o mv.st)
    \* chebyshev_center: the program is {(x, r) | a_i.x + |a_i| r <= b_i, r >= 0}, cost -r; its optimum is the inradius
    /\ V("C10", e, e.cheb.res = "ok", "chebyshev_center panicked", "cheb/panic")
    /\ V("C10", e, e.cheb.res # "ok" \/ ~e.cheb.prog.ex \/
            (/\ Len(e.cheb.prog.m) = Len(p.m) + 1 /\ e.cheb.cost = [i \in 1..(n + 1) |-> IF i = n + 1 THEN -1 ELSE 0]
             /\ \A i \in 1..Len(p.m) : /\ SubSeq(e.cheb.prog.m[i], 1, n) = p.m[i] /\ e.cheb.prog.b[i] = p.b[i]
                                       /\ e.cheb.prog.m[i][n + 1] >= 0 /\ e.cheb.prog.m[i][n + 1] * e.cheb.prog.m[i][n + 1] = Dot(p.m[i], p.m[i])
             /\ e.cheb.prog.m[Len(p.m) + 1] = [i \in 1..(n + 1) |-> IF i = n + 1 THEN -1 ELSE 0] /\ e.cheb.prog.b[Len(p.m) + 1] = 0),
         "the Chebyshev-centre program is not {a_i.x + |a_i| r <= b_i, r >= 0} with cost -r", "cheb/program")
    /\ V("C10", e, e.cheb.res # "ok" \/ ~e.cheb.prog.ex \/
            LET Pg == Cons(e.cheb.prog)
                rv == MinValue(Pg, e.cheb.cost, n + 1)                      \* minimum of -r
            IN CASE e.cheb.sol.st = "I" -> rv.st = "inf" \/ ~HasInterior(Pg, n + 1)
                 [] e.cheb.sol.st = "U" -> rv.st = "unb"
                 [] e.cheb.sol.st = "O" -> /\ rv.st = "opt" /\ (~e.cheb.sol.w.ok \/
                                              (/\ \A k \in Pg : SatTol(k, e.cheb.sol.w.p, 1)
                                               /\ Abs(-e.cheb.sol.w.p[n + 1] * rv.den - rv.num * WQ) <= 2 * rv.den))
                 [] OTHER -> FALSE,
         "solving the Chebyshev-centre program does not give the radius of a largest inscribed ball", "cheb/solve-" \o e.cheb.sol.st)

\* ---------------------------------------------------------------- mirror_points (C05)
CheckMirror(e) ==
    /\ V("C05", e, e.res = "ok", "mirror_points panicked", "mirror/panic")
    /\ V("C05", e, ~e.found \/ \A k \in 1..Len(e.points) : ~e.points[k].ok \/ \A c \in Cons(e.p) : SatTol(c, e.points[k].p, e.p.q),
         "mirror_points returned a point outside the polytope it was asked for", "mirror/outside")

CheckEvent(e) ==
    CASE e.kind = "poly" -> CheckPoly(e)
      [] e.kind = "aff" -> CheckAff(e)
      [] e.kind = "lp" -> CheckLpEvent(e)
      [] e.kind = "mirror" -> CheckMirror(e)

Init == l = 1
Next == l <= Len(Rec) /\ (CheckEvent(Rec[l]) = TRUE) /\ l' = l + 1
Spec == Init /\ [][Next]_vars
Done == Require(TLCGet("stats").diameter = Len(Rec) + 1, PrintT("INCOMPLETE")) /\ PrintT("DONE " \o ToString(Len(Rec)))
=============================================================================
