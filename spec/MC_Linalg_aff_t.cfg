SPECIFICATION Spec
CONSTANTS
  MODE = "aff"
  NP = 1
  EMIT = TRUE
VIEW View
INVARIANTS ComposeLaw AddLaw
ACTION_CONSTRAINT Emit
CHECK_DEADLOCK FALSE
