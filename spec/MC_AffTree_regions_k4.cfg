SPECIFICATION Spec
CONSTANTS
  MODE = "regions"
  K = 4
  NF = 1
  NG = 1
  PF = "pp2"
  TF = "t22s"
  PG = "p2s"
  TG = "t22s"
  LAYOUTS = {"dfs"}
  EMIT = TRUE
VIEW View
INVARIANTS LawRegions
ACTION_CONSTRAINT Emit
CHECK_DEADLOCK FALSE
