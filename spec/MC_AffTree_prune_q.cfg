SPECIFICATION Spec
CONSTANTS
  MODE = "prune"
  K = 2
  NF = 2
  NG = 0
  PF = "p1x"
  TF = "t12"
  PG = "p1y"
  TG = "t11s"
  LAYOUTS = {"dfs"}
  EMIT = TRUE
VIEW View
INVARIANTS LawPrune LawCache LawEffective ResultWellFormed
ACTION_CONSTRAINT Emit
CHECK_DEADLOCK FALSE
