SPECIFICATION Spec
CONSTANTS
  MODE = "compose"
  K = 2
  NF = 1
  NG = 1
  PF = "p1s"
  TF = "t11s"
  PG = "p1y"
  TG = "t11"
  LAYOUTS = {"dfs"}
  EMIT = TRUE
VIEW View
INVARIANTS LawCompose IndicesKept ResultWellFormed
ACTION_CONSTRAINT Emit
CHECK_DEADLOCK FALSE
