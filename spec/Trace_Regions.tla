---------------------------- MODULE Trace_Regions ----------------------------
(* Trace validator for family "regions" (property C09, and the size_hint of    *)
(* PolyhedraIter for C13).  One event = one AffTree<2> with                     *)
(*   - the polyhedra() stream (node, depth, sibling counter, path polytopes)    *)
(*     under a next/skip schedule,                                              *)
(*   - the polyhedra_iter() stream with size_hint after every call,             *)
(*   - find_terminal / path_to_node on a grid of half-integers.                 *)
(* Regions are compared exactly by Fourier-Motzkin.                              *)
EXTENDS AffTreeL1, TraceBase

Tr == INSTANCE Traversal

VARIABLES l
vars == <<l>>

ToT(j) ==
    LET idx == {j.nodes[n].i : n \in 1..Len(j.nodes)}
        At(i) == j.nodes[CHOOSE n \in 1..Len(j.nodes) : j.nodes[n].i = i]
    IN [root |-> j.root, dim |-> j.dim, k |-> j.k,
        nodes |-> [i \in idx |-> [p |-> At(i).p, ch |-> At(i).ch, leaf |-> At(i).leaf, m |-> At(i).m, b |-> At(i).b, q |-> At(i).q,
                                  st |-> At(i).st, w |-> At(i).w, ex |-> At(i).ex]],
        free |-> <<>>, slen |-> 1000000]

V(prop, e, cond, what, sg) == Require(cond, Verdict(prop, e, what, "regions/" \o sg))

\* reported closed region of a stream step: union of the rows of its polytopes
Reported(step) == UNION {PolyCons(step.polys[j]) : j \in 1..Len(step.polys)}

\* the node items of a run, in order, with the set of nodes after which skip_subtree was called
RECURSIVE SkipSet(_, _, _)
SkipSet(steps, j, last) ==
    IF j > Len(steps) THEN {}
    ELSE IF steps[j].call = "s" THEN (IF last = NONE THEN {} ELSE {last}) \cup SkipSet(steps, j + 1, last)
    ELSE SkipSet(steps, j + 1, IF steps[j].item.none THEN last ELSE steps[j].item.idx)
Items(steps) == LET s == SelectSeq(steps, LAMBDA st : st.call = "n" /\ ~st.item.none) IN [j \in 1..Len(s) |-> s[j].item]
NextSteps(steps) == SelectSeq(steps, LAMBDA st : st.call = "n" /\ ~st.item.none)

\* number of items a plain next() loop still yields after step j of the iterator run = items after position j (no later skips)
RECURSIVE CountItemsAfter(_, _)
CountItemsAfter(steps, j) == IF j >= Len(steps) THEN 0
                             ELSE (IF steps[j + 1].call = "n" /\ ~steps[j + 1].item.none THEN 1 ELSE 0) + CountItemsAfter(steps, j + 1)
NoSkipAfter(steps, j) == \A i \in (j + 1)..Len(steps) : steps[i].call # "s"

CheckEvent(e) ==
    LET t == ToT(e.tree)
        d == t.dim
        gsteps == e.gen.steps
        skip == SkipSet(gsteps, 1, NONE)
        ref == Tr!Ref("dfs", t, t.root, skip)
        ns == NextSteps(gsteps)
        \* total: every label a decision can produce (2^rows of them) has a child
        total == \A i \in Occ(t) : ~t.nodes[i].leaf => \A j \in 1..Len(t.nodes[i].ch) : j <= Pow2(Len(t.nodes[i].m)) => t.nodes[i].ch[j] # NONE
        shape == IF total THEN "total" ELSE "partial"
        terms == {s \in SeqToSet(ns) : t.nodes[s.item.idx].leaf}
    IN
    /\ V("C09", e, e.gen.res = "ok", "polyhedra() traversal panicked", "panic")
    /\ V("C09", e, Items(gsteps) = ref,
         "polyhedra() does not report the nodes once each in depth-first order with correct depth / sibling counters (also under skip_subtree)",
         "stream/" \o (IF skip = {} THEN "noskip" ELSE "skip"))
    \* region of every reported node: routing region inside reported polytope, interior of reported polytope routed through the node
    /\ V("C09", e, \A j \in 1..Len(ns) : ns[j].item.idx \in Occ(t) => Subset(RouteRegion(t, ns[j].item.idx), Reported(ns[j]), d),
         "an input routed through a node violates the path conditions reported for it", "route-in-reported/" \o (IF skip = {} THEN "noskip" ELSE "skip"))
    /\ V("C09", e, \A j \in 1..Len(ns) : ns[j].item.idx \in Occ(t) => Subset(Strict(Reported(ns[j])), RouteRegion(t, ns[j].item.idx), d),
         "a point strictly inside a node's reported polytope is not routed through that node", "interior-routed/" \o (IF skip = {} THEN "noskip" ELSE "skip"))
    /\ V("C09", e, \A a \in terms, b \in terms : a.item.idx = b.item.idx \/ ~Feas(Strict(Reported(a)) \cup Strict(Reported(b)), d),
         "the reported regions of two distinct terminals overlap in their interiors", "disjoint")
    /\ V("C09", e, ~total \/ skip # {} \/ \A p \in Pieces(t) : ~p.out.u /\ (\E s \in terms : s.item.idx = p.node /\ Subset(p.cons, Reported(s), d)),
         "the reported terminal regions of a total tree do not cover the input space", "cover")
    \* find_terminal / path_to_node on the grid
    /\ V("C09", e, \A n \in 1..Len(e.finds) :
            LET fd == e.finds[n]
                sp == FindTerminal(t, t.root, fd.x, e.den, <<>>)
            IN /\ fd.d # 2
               /\ (fd.d = 1) = sp.def
               /\ fd.d = 1 => /\ fd.labels = sp.labels /\ fd.node = sp.node /\ fd.same
                              /\ [j \in 1..Len(fd.path) |-> fd.path[j][2]] = fd.labels
                              /\ fd.path = PathOf(t, fd.node),
         "find_terminal labels / returned terminal / path_to_node disagree with each other or with the routing semantics at a grid point", "find/" \o shape)
    /\ V("C09", e, \A n \in 1..Len(e.finds) :
            LET fd == e.finds[n] IN
            fd.d = 1 => \A j \in 1..Len(ns) :
                (ns[j].item.idx = fd.node \/ ns[j].item.idx \in {pr[1] : pr \in SeqToSet(PathOf(t, fd.node))})
                => SatAll(Reported(ns[j]), fd.x, e.den),
         "a grid input does not satisfy the reported path conditions of a node on its own path", "grid-sat")
    \* PolyhedraGen::with_root(start): the subtree of start in depth-first order; whatever path conditions are reported for a node n
    \* (with or without the edge into start) must hold for every input routed through n, and an input that reaches start and lies
    \* strictly inside them must be routed through n
    /\ V("C09", e, \A n \in 1..Len(e.subs) :
            LET sb == e.subs[n] IN sb.res = "ok" /\ [j \in 1..Len(sb.steps) |-> sb.steps[j].item] = Tr!Ref("dfs", t, sb.start, {}),
         "a traversal started below the root (PolyhedraGen::with_root) does not report the nodes of that subtree in depth-first order", "with-root/stream")
    /\ V("C09", e, \A n \in 1..Len(e.subs) : \A j \in 1..Len(e.subs[n].steps) :
            LET st == e.subs[n].steps[j]  nd == st.item.idx IN
            nd \in Occ(t) => /\ Subset(RouteRegion(t, nd), Reported(st), d)
                              /\ Subset(Strict(Reported(st)) \cup RouteRegion(t, e.subs[n].start), RouteRegion(t, nd), d),
         "path conditions reported by a traversal started below the root do not characterise the inputs routed through the node", "with-root/conditions")
    \* edge_polytope(predicate, label): the closed half-spaces of the label (bit i set <=> row i holds; labels the predicate cannot
    \* produce: empty); evaluate_decision(node, x): the label whose bits are the satisfied rows
    /\ V("C09", e, "edges" \notin DOMAIN e \/ \A n \in 1..Len(e.edges) :
            LET ed == e.edges[n]  nd == t.nodes[ed.i] IN
            \A lb \in 1..Len(ed.labels) : ed.labels[lb].n = d /\ (~ed.labels[lb].ex \/ SetEq(PolyCons(ed.labels[lb]), ClosedConsOf(nd, lb - 1), d)),
         "edge_polytope(predicate, label) is not the closed region of that label", "edge-polytope")
    /\ V("C09", e, "edges" \notin DOMAIN e \/ \A n \in 1..Len(e.edges) :
            LET ed == e.edges[n]  nd == t.nodes[ed.i] IN
            \A k \in 1..Len(ed.decide) : ed.decide[k][2] = DecisionLabel(nd, ed.decide[k][1], e.den),
         "evaluate_decision(node, x) is not the label whose bits are the satisfied rows", "evaluate-decision")
    \* PolyhedraIter: same items, and size_hint brackets the number of items still to come
    /\ V("C13", e, e.iter.res = "ok", "polyhedra_iter() panicked", "iter-panic")
    /\ V("C13", e, e.iter.res # "ok" \/ Items(e.iter.run.steps) = ref, "polyhedra_iter() items differ from the reference depth-first traversal", "iter-items")
    /\ V("C13", e, e.iter.res # "ok" \/ \A j \in 1..Len(e.iter.run.steps) :
            NoSkipAfter(e.iter.run.steps, j) =>
               LET rem == CountItemsAfter(e.iter.run.steps, j)  h == e.iter.run.steps[j].hint
               IN h[1] <= rem /\ (h[2] = -1 \/ rem <= h[2]),
         "PolyhedraIter::size_hint does not bracket the number of items still to come", "iter-hint")
    /\ V("C13", e, e.iter.res # "ok" \/ ~NoSkipAfter(e.iter.run.steps, 0) \/
            (e.iter.run.hint0[1] <= Len(ref) /\ (e.iter.run.hint0[2] = -1 \/ Len(ref) <= e.iter.run.hint0[2])),
         "initial PolyhedraIter::size_hint does not bracket the number of items", "iter-hint0")

Init == l = 1
Next == l <= Len(Rec) /\ (CheckEvent(Rec[l]) = TRUE) /\ l' = l + 1     \* "= TRUE": evaluated as an expression (short-circuit), not split as an action
Spec == Init /\ [][Next]_vars
Done == Require(TLCGet("stats").diameter = Len(Rec) + 1, PrintT("INCOMPLETE")) /\ PrintT("DONE " \o ToString(Len(Rec)))
=============================================================================
