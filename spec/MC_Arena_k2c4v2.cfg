SPECIFICATION Spec
CONSTANTS
  K = 2
  CAP = 4
  Vals = {0, 1}
  REROOT = FALSE
  EMIT = TRUE
VIEW View
INVARIANTS Inv InvWeak SlabInv
PROPERTIES ErrUnchanged Survivors
ACTION_CONSTRAINT Emit
CHECK_DEADLOCK FALSE
