------------------------------- MODULE Linalg -------------------------------
(* affinitree::linalg: affine functions  f(x) = M x + c  and polytopes            *)
(* P = {x | A x <= b}  as records [m |-> rows, b |-> bias, q |-> scale, n |-> input *)
(* dimension] (integers scaled by q).  For every operation of affine.rs /          *)
(* impl_ops.rs / polyhedron.rs: the L1 definition (what the code computes,          *)
(* coefficient by coefficient) and, where the property is about the denoted set or   *)
(* function, the L0 definition it must agree with.                                   *)
EXTENDS FM

A(m, b, n) == [m |-> m, b |-> b, q |-> 1, n |-> n]
AQ(m, b, q, n) == [m |-> m, b |-> b, q |-> q, n |-> n]
OutDim(f) == Len(f.m)

\* ------------------------------------------------------------------ equality of denotations
\* two affine records denote the same function (coefficients equal after cross-scaling)
SameAff(f, g) == /\ f.n = g.n /\ Len(f.m) = Len(g.m)
                 /\ MScale(g.q, f.m) = MScale(f.q, g.m) /\ Scale(g.q, f.b) = Scale(f.q, g.b)
\* the constraint set of a polytope record (scale-free)
Cons(p) == {Le(p.m[i], p.b[i]) : i \in 1..Len(p.m)}
SamePoly(p, r) == p.n = r.n /\ SetEq(Cons(p), Cons(r), p.n)
\* value of f at the point xs/den, scaled by f.q * den
Apply(f, xs, den) == [r \in 1..Len(f.m) |-> Dot(f.m[r], xs) + f.b[r] * den]
\* value of the transposed map  M^T (x - c)  at the point xs/den, scaled by f.q * f.q * den
ApplyTranspose(f, xs, den) == RowTimesMat(VSub(Scale(f.q, xs), Scale(den, f.b)), f.m)
ResetRow(f, r) == AQ([i \in 1..Len(f.m) |-> IF i = r + 1 THEN ZeroVec(f.n) ELSE f.m[i]], [i \in 1..Len(f.b) |-> IF i = r + 1 THEN 0 ELSE f.b[i]], f.q, f.n)
Member(p, xs, den) == \A i \in 1..Len(p.m) : Dot(p.m[i], xs) <= p.b[i] * den

\* ------------------------------------------------------------------ AffFunc constructors (documentation = definition)
Identity(d) == A(Eye(d), ZeroVec(d), d)
Zeros(d) == A(ZeroMat(d, d), ZeroVec(d), d)
Constant(d, v, q) == AQ(<<ZeroVec(d)>>, <<v>>, q, d)
Unit(d, k) == A(<<UnitVec(d, k + 1)>>, <<0>>, d)
ZeroIdx(d, k) == A([i \in 1..d |-> IF i = k + 1 THEN ZeroVec(d) ELSE UnitVec(d, i)], ZeroVec(d), d)
SumF(d) == A(<<[i \in 1..d |-> 1]>>, <<0>>, d)
Subtraction(d, l, r) == A(<<[i \in 1..d |-> (IF i = l + 1 THEN 1 ELSE 0) - (IF i = r + 1 THEN 1 ELSE 0)]>>, <<0>>, d)
Rotation(R) == A(R, ZeroVec(Len(R)), Len(R))
Scaling(v, q) == AQ(Diag(v), ZeroVec(Len(v)), q, Len(v))
UniformScaling(d, s, q) == Scaling([i \in 1..d |-> s], q)
\* slice: mask[i] = TRUE (NaN in the reference point) keeps axis i, otherwise the axis is fixed to ref[i]
Slice(mask, ref, q) == AQ([i \in 1..Len(mask) |-> [j \in 1..Len(mask) |-> IF i = j /\ mask[i] THEN q ELSE 0]],
                          [i \in 1..Len(mask) |-> IF mask[i] THEN 0 ELSE ref[i]], q, Len(mask))
\* translation: x |-> x + offset
Translation(d, off, q) == AQ(MScale(q, Eye(d)), off, q, d)

\* ------------------------------------------------------------------ AffFunc algebra
Compose(f, g) ==        \* f after g
    AQ(MatMul(f.m, g.m), VAdd(MatVec(f.m, g.b), Scale(g.q, f.b)), f.q * g.q, g.n)
Stack(f, g) == AQ(MScale(g.q, f.m) \o MScale(f.q, g.m), Scale(g.q, f.b) \o Scale(f.q, g.b), f.q * g.q, f.n)
AddF(f, g) == AQ(MAdd(MScale(g.q, f.m), MScale(f.q, g.m)), VAdd(Scale(g.q, f.b), Scale(f.q, g.b)), f.q * g.q, f.n)
SubF(f, g) == AQ(MSub(MScale(g.q, f.m), MScale(f.q, g.m)), VSub(Scale(g.q, f.b), Scale(f.q, g.b)), f.q * g.q, f.n)
MulF(f, g) == AQ([i \in 1..Len(f.m) |-> [j \in 1..Len(f.m[i]) |-> f.m[i][j] * g.m[i][j]]], [i \in 1..Len(f.b) |-> f.b[i] * g.b[i]], f.q * g.q, f.n)
NegF(f) == AQ(MNeg(f.m), Neg(f.b), f.q, f.n)
\* truncated remainder (sign of the dividend), as f64 % on integers
TRem(x, y) == LET r == Abs(x) % Abs(y) IN IF x < 0 THEN -r ELSE r
RemF(f, g) == A([i \in 1..Len(f.m) |-> [j \in 1..Len(f.m[i]) |-> TRem(f.m[i][j], g.m[i][j])]], [i \in 1..Len(f.b) |-> TRem(f.b[i], g.b[i])], f.n)
\* exact quotient entries only (alphabets guarantee divisibility)
DivF(f, g) == A([i \in 1..Len(f.m) |-> [j \in 1..Len(f.m[i]) |-> f.m[i][j] \div g.m[i][j]]], [i \in 1..Len(f.b) |-> f.b[i] \div g.b[i]], f.n)
Row(f, r) == AQ(<<f.m[r + 1]>>, <<f.b[r + 1]>>, f.q, f.n)
KeepRows(f, keep) == AQ([j \in 1..Len(keep) |-> f.m[keep[j]]], [j \in 1..Len(keep) |-> f.b[keep[j]]], f.q, f.n)
RemoveRows(f, rm) == KeepRows(f, SelectSeq([i \in 1..Len(f.m) |-> i], LAMBDA i : (i - 1) \notin rm))
RemoveZeroRows(f) == KeepRows(f, SelectSeq([i \in 1..Len(f.m) |-> i], LAMBDA i : ~(IsZero(f.m[i]) /\ f.b[i] = 0)))
NonZeroCols(f) == SelectSeq([j \in 1..f.n |-> j], LAMBDA j : \E i \in 1..Len(f.m) : f.m[i][j] # 0)
RemoveZeroColumns(f) == LET cs == NonZeroCols(f) IN AQ([i \in 1..Len(f.m) |-> [j \in 1..Len(cs) |-> f.m[i][cs[j]]]], f.b, f.q, Len(cs))

\* polytope <-> function views: PolyRepr gives the function g with  {x | A x <= b}  =  {x | g(x) rel 0/bias}
ConvertTo(p, repr) ==
    CASE repr = "MatrixLeqBias" -> AQ(p.m, p.b, p.q, p.n)              \* M x <= b   stored as (M, b)
      [] repr = "MatrixBiasLeqZero" -> AQ(p.m, Neg(p.b), p.q, p.n)      \* M x + c <= 0
      [] repr = "MatrixGeqBias" -> AQ(MNeg(p.m), Neg(p.b), p.q, p.n)    \* M x >= c
      [] repr = "MatrixBiasGeqZero" -> AQ(MNeg(p.m), p.b, p.q, p.n)     \* M x + c >= 0
\* the half-spaces a function g denotes under a representation
ReprCons(g, repr) ==
    CASE repr = "MatrixLeqBias" -> {Le(g.m[i], g.b[i]) : i \in 1..Len(g.m)}
      [] repr = "MatrixBiasLeqZero" -> {Le(g.m[i], -g.b[i]) : i \in 1..Len(g.m)}
      [] repr = "MatrixGeqBias" -> {Le(Neg(g.m[i]), -g.b[i]) : i \in 1..Len(g.m)}
      [] repr = "MatrixBiasGeqZero" -> {Le(Neg(g.m[i]), g.b[i]) : i \in 1..Len(g.m)}

\* ------------------------------------------------------------------ Polytope constructors: L0 definitions as constraint sets
HypercubeDef(d, r, q) == UNION {{Le(Scale(q, UnitVec(d, i)), r), Le(Scale(-q, UnitVec(d, i)), r)} : i \in 1..d}     \* |x_i| <= r/q
\* bounds: sequence of [lo, hi, loinf, hiinf] (values scaled by q)
AxisDef(d, axis, bd, q) ==
    (IF bd.loinf THEN {} ELSE {Le(Scale(-q, UnitVec(d, axis + 1)), -bd.lo)}) \cup (IF bd.hiinf THEN {} ELSE {Le(Scale(q, UnitVec(d, axis + 1)), bd.hi)})
RectDef(bds, q) == UNION {AxisDef(Len(bds), i - 1, bds[i], q) : i \in 1..Len(bds)}
SignVecs(d) == VecsOver({-1, 1}, d)
CrossDef(d) == {Le(s, 1) : s \in SignVecs(d)}                                  \* sum |x_i| <= 1
FromNormalDef(N, Pts) == {Le(Neg(N[i]), -Dot(N[i], Pts[i])) : i \in 1..Len(N)}    \* n_i . x >= n_i . p_i
\* regular simplex in R^d, d + 1 = s^2: vertices e_1..e_d and c*(1,..,1) with c = (1 - s)/d; as integer points scaled by d
SimplexVertices(d, s) == {Scale(d, UnitVec(d, i)) : i \in 1..d} \cup {[i \in 1..d |-> 1 - s]}

\* ------------------------------------------------------------------ Polytope transformations: L1 (as coded) and L0 (as sets)
Translate(p, dv, qd) == AQ(MScale(qd, p.m), VAdd(Scale(qd, p.b), MatVec(p.m, dv)), p.q * qd, p.n)           \* bias + A d
TranslateDef(p, dv, qd) == {Le(Scale(qd, c.a), qd * c.b + Dot(c.a, dv)) : c \in Cons(p)}                    \* {x | x - d in P}
Intersection(p, r) == AQ(MScale(r.q, p.m) \o MScale(p.q, r.m), Scale(r.q, p.b) \o Scale(p.q, r.b), p.q * r.q, p.n)
ApplyPre(p, f) == AQ(MatMul(p.m, f.m), VSub(Scale(f.q, p.b), MatVec(p.m, f.b)), p.q * f.q, f.n)
ApplyPreDef(p, f) == {[a |-> RowTimesMat(c.a, f.m), b |-> f.q * c.b - Dot(c.a, f.b), s |-> FALSE] : c \in Cons(p)}   \* {x | f(x) in P}
\* apply_post(inverse_mat, bias): image of P under y = inverse_mat^-1 x + bias
ApplyPost(p, Minv, c) == AQ(MatMul(p.m, Minv), VAdd(MatVec(p.m, MatVec(Minv, c)), p.b), p.q, p.n)

\* ------------------------------------------------------------------ clean-up
IsTautRow(p, i) == IsZero(p.m[i]) /\ p.b[i] >= 0
IsAbsurdRow(p, i) == IsZero(p.m[i]) /\ p.b[i] < 0
CanonicalEmpty(p) == Len(p.m) = 1 /\ IsZero(p.m[1]) /\ p.b[1] < 0
CanonicalUnbounded(p) == Len(p.m) = 1 /\ IsZero(p.m[1]) /\ p.b[1] > 0
\* r's rows are a subsequence of p's rows up to a positive factor per row (cross-multiplication)
SameRowUpToPos(a1, b1, a2, b2) ==
    \E i \in 1..Len(a1) \cup {0} :
        IF i = 0 THEN IsZero(a1) /\ IsZero(a2) /\ Sign(b1) = Sign(b2)
        ELSE a1[i] # 0 /\ a2[i] # 0 /\ Sign(a1[i]) = Sign(a2[i]) /\ Scale(Abs(a2[i]), a1) = Scale(Abs(a1[i]), a2) /\ Abs(a2[i]) * b1 = Abs(a1[i]) * b2
RECURSIVE SubSeqUpToPos(_, _, _, _)
SubSeqUpToPos(r, p, i, j) ==
    IF i > Len(r.m) THEN TRUE
    ELSE IF j > Len(p.m) THEN FALSE
    ELSE IF SameRowUpToPos(r.m[i], r.b[i], p.m[j], p.b[j]) THEN SubSeqUpToPos(r, p, i + 1, j + 1)
    ELSE SubSeqUpToPos(r, p, i, j + 1)
=============================================================================
