SPECIFICATION Spec
CONSTANTS
  MODE = "reduce"
  K = 2
  NF = 3
  NG = 2
  PF = "p2s"
  TF = "t22c"
  PG = "p2s"
  TG = "t22c"
  LAYOUTS = {"dfs", "hole", "rev", "low"}
  EMIT = TRUE
VIEW View
INVARIANTS LawReduce ResultWellFormed
ACTION_CONSTRAINT Emit
CHECK_DEADLOCK FALSE
