SPECIFICATION Spec
CONSTANTS
  MODE = "compose"
  K = 4
  NF = 0
  NG = 1
  PF = "pp2"
  TF = "t22r"
  PG = "pp2"
  TG = "t22s"
  LAYOUTS = {"dfs"}
  EMIT = TRUE
VIEW View
INVARIANTS LawCompose IndicesKept ResultWellFormed
ACTION_CONSTRAINT Emit
CHECK_DEADLOCK FALSE
