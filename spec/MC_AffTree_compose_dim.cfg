SPECIFICATION Spec
CONSTANTS
  MODE = "compose"
  K = 2
  NF = 2
  NG = 1
  PF = "p2s"
  TF = "t21"
  PG = "p1s"
  TG = "t12"
  LAYOUTS = {"dfs", "rev"}
  EMIT = TRUE
VIEW View
INVARIANTS LawCompose IndicesKept ResultWellFormed
ACTION_CONSTRAINT Emit
CHECK_DEADLOCK FALSE
