SPECIFICATION Spec
CONSTANTS
  MODE = "compose"
  K = 2
  NF = 1
  NG = 1
  PF = "p2s"
  TF = "t22z"
  PG = "p2a"
  TG = "t21"
  LAYOUTS = {"dfs"}
  EMIT = TRUE
VIEW View
INVARIANTS LawCompose IndicesKept ResultWellFormed
ACTION_CONSTRAINT Emit
CHECK_DEADLOCK FALSE
