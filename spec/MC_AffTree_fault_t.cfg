SPECIFICATION Spec
CONSTANTS
  MODE = "fault"
  K = 2
  NF = 2
  NG = 2
  PF = "p1y"
  TF = "t12"
  PG = "p1y"
  TG = "t12"
  LAYOUTS = {"dfs"}
  EMIT = TRUE
VIEW View
INVARIANTS LawFault ResultWellFormed
ACTION_CONSTRAINT Emit
CHECK_DEADLOCK FALSE
