SPECIFICATION Spec
CONSTANTS
  MODE = "reduce"
  K = 2
  NF = 3
  NG = 1
  PF = "p2one"
  TF = "tp2one"
  PG = "p2s"
  TG = "t22c"
  LAYOUTS = {"dfs", "low"}
  EMIT = TRUE
VIEW View
INVARIANTS LawReduce ResultWellFormed
ACTION_CONSTRAINT Emit
CHECK_DEADLOCK FALSE
