SPECIFICATION Spec
CONSTANTS
  MODE = "poly"
  NP = 1
  EMIT = TRUE
VIEW View
INVARIANTS CtorOK StepsOK
ACTION_CONSTRAINT Emit
CHECK_DEADLOCK FALSE
