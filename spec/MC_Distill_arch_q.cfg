SPECIFICATION Spec
CONSTANTS
  MODE = "arch"
  N = 3
  EMIT = TRUE
VIEW View
INVARIANTS SchemaLaw NetLaw ArchLaw
ACTION_CONSTRAINT Emit
CHECK_DEADLOCK FALSE
