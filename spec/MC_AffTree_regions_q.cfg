SPECIFICATION Spec
CONSTANTS
  MODE = "regions"
  K = 2
  NF = 3
  NG = 1
  PF = "p2s"
  TF = "t22s"
  PG = "p2s"
  TG = "t22s"
  LAYOUTS = {"dfs", "hole", "holed", "low"}
  EMIT = TRUE
VIEW View
INVARIANTS LawRegions
ACTION_CONSTRAINT Emit
CHECK_DEADLOCK FALSE
