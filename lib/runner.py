"""Pipeline shared by all checks.

 (A) TLC model-checks the bounded L1 model (MC_*.tla) and prints one replay script per generated transition
 (B) the Rust harness replays every script on the real crate (built from /repo's working tree) and records states
 (C) TLC validates the recorded trace (Trace_*.tla): property formulas -> VERDICT, model disagreement -> DRIFT

Only VERDICT lines of the checked property that are not listed in known_findings.json make a check fail.
"""
import concurrent.futures as cf
import fcntl
import hashlib
import json
import math
import os
import re
import shutil
import subprocess
import sys
import time

ROOT = os.path.normpath(os.path.join(os.path.dirname(os.path.abspath(__file__)), '..'))
SPEC = os.path.join(ROOT, 'spec')
HARNESS = os.path.join(ROOT, 'harness')
WORKROOT = os.path.join(ROOT, 'work')
EVID = os.path.join(ROOT, 'evidence')
# VERIF_REPO: alternative location of the repository under test (used only to evaluate seeded defects in a scratch copy);
# the registered checks always use /repo
REPO = os.environ.get('VERIF_REPO', '/repo')
if REPO != '/repo':
    HARNESS_SRC = HARNESS
    HARNESS = os.path.join(WORKROOT, 'harness-' + hashlib.sha1(REPO.encode()).hexdigest()[:8])
CONFORM = os.path.join(HARNESS, 'target', 'debug', 'conform')
NCPU = os.cpu_count() or 4


class ToolError(Exception):
    pass


def log(*a):
    print(*a, file=sys.stderr, flush=True)


# ----------------------------------------------------------------------------------------------- build
def build_harness():
    """cargo build of the harness (path dependency on /repo => rebuilds from /repo's working tree)."""
    os.makedirs(WORKROOT, exist_ok=True)
    lock = open(os.path.join(WORKROOT, '.build.lock'), 'w')
    fcntl.flock(lock, fcntl.LOCK_EX)
    try:
        if REPO != '/repo':
            os.makedirs(HARNESS, exist_ok=True)
            for item in ('src', '.cargo'):
                shutil.rmtree(os.path.join(HARNESS, item), ignore_errors=True)
                shutil.copytree(os.path.join(HARNESS_SRC, item), os.path.join(HARNESS, item))
            shutil.copy(os.path.join(HARNESS_SRC, 'Cargo.lock'), HARNESS)
            toml = open(os.path.join(HARNESS_SRC, 'Cargo.toml')).read().replace('path = "/repo"', 'path = "%s"' % REPO)
            open(os.path.join(HARNESS, 'Cargo.toml'), 'w').write(toml)
        lockfile = os.path.join(HARNESS, 'Cargo.lock')
        if not os.path.exists(lockfile):
            shutil.copy('/repo/Cargo.lock', lockfile)
        env = dict(os.environ, CARGO_NET_OFFLINE='true')
        t0 = time.time()
        p = subprocess.run(['cargo', 'build', '--offline', '--quiet'], cwd=HARNESS, env=env,
                           stdout=subprocess.PIPE, stderr=subprocess.STDOUT, text=True)
        if p.returncode != 0:
            log(p.stdout[-4000:])
            raise ToolError('harness build failed (does /repo compile?)')
        log('[build] harness ok in %.1fs' % (time.time() - t0))
    finally:
        fcntl.flock(lock, fcntl.LOCK_UN)
        lock.close()


# ----------------------------------------------------------------------------------------------- TLC
def run_tlc(module, cfg, out_path, workdir, workers=1, env_extra=None, timeout=1800, xmx='4g', coverage=False, simulate=None, seed=0):
    md = os.path.join(workdir, 'md_' + os.path.basename(out_path))
    env = dict(os.environ)
    env['JAVA_TOOL_OPTIONS'] = '-Xss1g -Xmx%s' % xmx
    if env_extra:
        env.update(env_extra)
    cmd = ['tlc', '-workers', str(workers), '-metadir', md, '-cleanup', '-noGenerateSpecTE',
           '-config', os.path.join(SPEC, cfg), os.path.join(SPEC, module + '.tla')]
    if coverage:
        cmd[1:1] = ['-coverage', '1']
    if simulate:
        cmd[1:1] = ['-simulate', 'num=%d' % simulate[0], '-depth', str(simulate[1]), '-seed', str(1 + seed)]
    with open(out_path, 'w') as f:
        try:
            p = subprocess.run(cmd, cwd=workdir, env=env, stdout=f, stderr=subprocess.STDOUT, timeout=timeout)
        except subprocess.TimeoutExpired:
            raise ToolError('TLC timeout on %s/%s' % (module, cfg))
    shutil.rmtree(md, ignore_errors=True)
    return p.returncode


STATS_RE = re.compile(r'^(\d+) states generated, (\d+) distinct states found')
SIM_RE = re.compile(r'^The number of states generated: (\d+)')


def parse_mc_output(path):
    """-> (states, transitions, scripts, errors)"""
    states = trans = 0
    scripts = []
    errors = []
    ok = False
    with open(path) as f:
        for line in f:
            if line.startswith('"SCRIPT '):
                try:
                    scripts.append(json.loads(json.loads(line)[7:]))
                except Exception as ex:
                    errors.append('unparsable SCRIPT line: %r' % ex)
                continue
            m = STATS_RE.match(line)
            if m:
                trans, states = int(m.group(1)), int(m.group(2))
            m = SIM_RE.match(line)
            if m:
                trans = states = int(m.group(1))
                ok = True
            if line.startswith('Error:') or 'is violated' in line:
                errors.append(line.strip())
            if 'Model checking completed. No error has been found.' in line:
                ok = True
    if not ok and not errors:
        errors.append('TLC did not complete')
    return states, trans, scripts, errors


def parse_trace_output(path):
    verdicts, drifts, notes, errors = [], [], [], []
    done = None
    with open(path) as f:
        for line in f:
            if not line.startswith('"'):
                if line.startswith('Error:') or 'is violated' in line or 'was violated' in line:
                    errors.append(line.strip())
                continue
            try:
                s = json.loads(line)
            except Exception:
                continue
            if s.startswith('VERDICT '):
                verdicts.append(json.loads(s[8:]))
            elif s.startswith('DRIFT '):
                drifts.append(json.loads(s[6:]))
            elif s.startswith('CONTINUITY '):
                errors.append(s)
            elif s.startswith('INCOMPLETE'):
                errors.append('trace not consumed completely')
            elif s.startswith('DONE '):
                done = int(s[5:])
            elif s.startswith('STAT '):
                notes.append(json.loads(s[5:]))
            elif s.startswith('INEXACT '):
                notes.append({'inexact': 1})
    if done is None and not errors:
        errors.append('validator did not finish (no DONE line)')
    return verdicts, drifts, notes, done, errors


# ----------------------------------------------------------------------------------------------- harness
CRASH_CODES = {-6: 'SIGABRT', -11: 'SIGSEGV', -4: 'SIGILL', -7: 'SIGBUS', -8: 'SIGFPE', 134: 'SIGABRT', 139: 'SIGSEGV', 132: 'SIGILL'}


def _run_harness(scripts_path, trace_path, timeout):
    try:
        return subprocess.run([CONFORM, 'replay', scripts_path, trace_path], stdout=subprocess.PIPE,
                              stderr=subprocess.PIPE, text=True, timeout=timeout)
    except subprocess.TimeoutExpired:
        raise ToolError('harness replay timed out (hang in code under test?)')


def replay(scripts_path, trace_path, timeout=3600):
    """Replays the scripts on the real crate. Returns the list of scripts on which the code under test took the whole process down
    (abort inside a no-unwind section, stack overflow, ...): a panic is caught and recorded by the harness, a process abort cannot be,
    so the script is isolated here (the harness flushes after every script), confirmed by running it alone, and reported as data."""
    p = _run_harness(scripts_path, trace_path, timeout)
    if p.returncode == 0:
        return []
    if p.returncode not in CRASH_CODES:
        raise ToolError('harness failed (exit %s): %s' % (p.returncode, p.stderr[-2000:]))
    scripts = [json.loads(l) for l in open(scripts_path) if l.strip()]
    crashes = []
    done_upto = 0            # scripts[:done_upto] are finished (events in trace_path)
    part = trace_path + '.part'
    os.replace(trace_path, part)
    with open(trace_path, 'w') as out:
        while True:
            # events of the scripts that completed before the crash; the crashing script is the first one without a complete record
            last_sc = None
            with open(part) as f:
                lines = f.readlines()
            complete = [l for l in lines if l.endswith('\n')]
            seen = []
            for l in complete:
                try:
                    seen.append(json.loads(l).get('sc'))
                except Exception:
                    pass
            ids = [s_.get('sc') for s_ in scripts[done_upto:]]
            # index (within the remaining scripts) of the crashing one: the script after the last one that has events, scanning in order
            k = 0
            seen_set = set(seen)
            while k < len(ids) and ids[k] in seen_set:
                k += 1
            # events of a half-written crashing script are dropped
            keep = [l for l in complete if json.loads(l).get('sc') in set(ids[:k])]
            out.writelines(keep)
            if p.returncode == 0:
                break
            if k >= len(ids):
                raise ToolError('harness crashed (%s) after the last script' % CRASH_CODES.get(p.returncode, p.returncode))
            bad = scripts[done_upto + k]
            # confirm: the script alone must crash again
            one = trace_path + '.one.ndjson'
            with open(one, 'w') as f:
                f.write(json.dumps(bad) + '\n')
            p1 = _run_harness(one, one + '.trace', timeout)
            if p1.returncode not in CRASH_CODES:
                raise ToolError('harness crashed (%s) on script %s but not when it is run alone' % (CRASH_CODES.get(p.returncode), bad.get('sc')))
            crashes.append({'sc': bad.get('sc'), 'signal': CRASH_CODES[p1.returncode], 'script': bad})
            done_upto += k + 1
            if len(crashes) >= 40 or done_upto >= len(scripts):
                break
            rest = trace_path + '.rest.ndjson'
            with open(rest, 'w') as f:
                for s_ in scripts[done_upto:]:
                    f.write(json.dumps(s_) + '\n')
            p = _run_harness(rest, part, timeout)
            if p.returncode != 0 and p.returncode not in CRASH_CODES:
                raise ToolError('harness failed (exit %s): %s' % (p.returncode, p.stderr[-2000:]))
    return crashes


def split_trace(trace_path, workdir, tag, max_events):
    """splits at script boundaries ("first": true) into shards of about max_events events"""
    shards = []
    cur = None
    n = 0
    total = 0
    harness_errors = []
    with open(trace_path) as f:
        for line in f:
            if '"harness_panic"' in line or '"unknown_family"' in line:
                harness_errors.append(line.strip()[:300])
                continue
            first = '"first":true' in line
            if cur is None or (n >= max_events and first):
                if cur:
                    cur.close()
                path = os.path.join(workdir, '%s.shard%03d.ndjson' % (tag, len(shards)))
                shards.append(path)
                cur = open(path, 'w')
                n = 0
            cur.write(line)
            n += 1
            total += 1
    if cur:
        cur.close()
    return shards, total, harness_errors


def validate(trace_module, trace_cfg, trace_path, workdir, tag, jobs=None, shard_events=2500, timeout=3600):
    shards, total, herr = split_trace(trace_path, workdir, tag, shard_events)
    if herr:
        raise ToolError('harness error events: ' + herr[0])
    jobs = jobs or max(1, min(NCPU - 2, len(shards)))
    results = []

    def one(sh):
        out = sh + '.out'
        run_tlc(trace_module, trace_cfg, out, workdir, workers=1, env_extra={'TRACE': sh}, timeout=timeout, xmx='3g')
        res = parse_trace_output(out)
        if res[4] == ['validator did not finish (no DONE line)']:
            # the JVM died without a TLC error (killed under memory pressure on a loaded machine): one retry, verdicts of the first attempt are kept
            log('[%s] validator process for %s ended without result; retrying once' % (tag, os.path.basename(sh)))
            time.sleep(5)
            run_tlc(trace_module, trace_cfg, out, workdir, workers=1, env_extra={'TRACE': sh}, timeout=timeout, xmx='3g')
            res2 = parse_trace_output(out)
            if res2[3] is not None:
                res = res2
        return sh, res

    verdicts, drifts, notes, errors = [], [], [], []
    done = 0
    with cf.ThreadPoolExecutor(max_workers=jobs) as ex:
        for sh, (v, d, n, dn, er) in ex.map(one, shards):
            verdicts += v
            drifts += d
            notes += n
            done += dn or 0
            errors += ['%s: %s' % (os.path.basename(sh), e) for e in er]
    if not errors and done != total:
        errors.append('validated %d of %d events' % (done, total))
    return verdicts, drifts, notes, total, errors


# ----------------------------------------------------------------------------------------------- findings
def load_known():
    p = os.path.join(ROOT, 'known_findings.json')
    if not os.path.exists(p):
        return []
    return json.load(open(p)).get('findings', [])


def sig_matches(known, verdict):
    return known.get('property') == verdict.get('property') and re.fullmatch(known.get('sig', ''), verdict.get('sig', '')) is not None


# ----------------------------------------------------------------------------------------------- stages
class Stage:
    """One scenario family: an MC model that emits scripts (or a generator), and the validator for the events."""

    def __init__(self, name, trace, mc=None, gen=None, shard_events=2500, mc_workers=8, nontrivial=None, sample_every=997,
                 post=None, mc_xmx='8g', sim=None):
        self.sim = sim
        self.name, self.trace, self.mc, self.gen = name, trace, mc, gen
        self.shard_events, self.mc_workers = shard_events, mc_workers
        self.nontrivial = nontrivial
        self.sample_every = sample_every
        self.post = post
        self.mc_xmx = mc_xmx


FORDER_EVERY = 6
FORDER_FAMILIES = {'afftree', 'regions', 'linalg', 'schema', 'slice', 'distill', 'arch', 'npz', 'format'}


def canon(o):
    return hashlib.sha1(json.dumps(o, sort_keys=True).encode()).hexdigest()


def run_stage(stage, workdir, seed, tier, result):
    t0 = time.time()
    tag = stage.name
    scripts = []
    states = trans = 0
    if stage.mc:
        module, cfg = stage.mc
        out = os.path.join(workdir, tag + '.mc.out')
        run_tlc(module, cfg, out, workdir, workers=1 if stage.sim else stage.mc_workers, xmx=stage.mc_xmx, simulate=stage.sim, seed=seed,
                timeout=1800 if tier == 'quick' else 10800)
        states, trans, scripts, errors = parse_mc_output(out)
        if errors == ['TLC did not complete']:
            # the JVM ended without a TLC error (killed under memory pressure on a loaded machine): one retry
            log('[%s] model checker ended without result; retrying once' % tag)
            time.sleep(5)
            run_tlc(module, cfg, out, workdir, workers=1 if stage.sim else stage.mc_workers, xmx=stage.mc_xmx, simulate=stage.sim, seed=seed,
                    timeout=1800 if tier == 'quick' else 10800)
            states, trans, scripts, errors = parse_mc_output(out)
        if errors:
            raise ToolError('model checking %s/%s: %s' % (module, cfg, errors[0]))
        os.remove(out)
    if stage.gen:
        scripts += stage.gen(seed, tier)
    # TLC workers print in a nondeterministic order: sort, so that script numbers and sampled variants are reproducible
    scripts.sort(key=lambda x: json.dumps(x, sort_keys=True))
    if stage.post:
        scripts = stage.post(scripts, seed, tier)
    if not scripts:
        raise ToolError('stage %s produced no scenario (vacuous model instance?)' % tag)
    # "forder" variants: a sample of the scenarios is replayed a second time with every matrix handed to the library stored
    # column-major (same values, other memory layout); the expected behaviour is the same, so the copies share the model's verdicts
    # (every second copy instead with a negative stride along the column axis: "negstride")
    # and every third with alternating layouts ("mixlayout": the operands of one operation differ in layout)
    scripts = scripts + [dict(s, **([{'forder': True}, {'negstride': True}, {'mixlayout': True}][(i // FORDER_EVERY) % 3])) for i, s in enumerate(scripts)
                         if i % FORDER_EVERY == 0 and s.get('fam') in FORDER_FAMILIES]
    for i, s in enumerate(scripts):
        s['sc'] = i
    spath = os.path.join(workdir, tag + '.scripts.ndjson')
    with open(spath, 'w') as f:
        for s in scripts:
            f.write(json.dumps(s) + '\n')
    tpath = os.path.join(workdir, tag + '.trace.ndjson')
    crashes = replay(spath, tpath)
    verdicts, drifts, notes, events, errors = validate(stage.trace, stage.trace + '.cfg', tpath, workdir, tag,
                                                       shard_events=stage.shard_events, timeout=3600 if tier == 'quick' else 14400)
    if errors:
        # verdicts already printed are sound; remember the tool error, it decides the exit code only if nothing was found
        result['tool_errors'].append('trace validation %s: %s' % (stage.trace, errors[0]))
        log('[%s] TOOL-ERROR (continuing): %s' % (tag, errors[0]))
    nt = set()
    if stage.nontrivial:
        for s in scripts:
            k = stage.nontrivial(s)
            if k is not None:
                nt.add(canon(k))
    else:
        nt = {canon({k: v for k, v in s.items() if k != 'sc'}) for s in scripts}
    # a script on which the code under test aborted the whole process has no post-state at all: no behaviour of the specification
    # matches it. It is reported for the property being checked (property "*").
    for c in crashes:
        sc_ = c['script']
        what = (sc_.get('op') or (sc_.get('steps') or [{}])[-1].get('op') or sc_.get('kind') or sc_.get('fam', '?'))
        verdicts.append({'property': '*', 'sc': c['sc'], 'what': 'the code under test aborted the process (%s) instead of returning or panicking: %s' % (c['signal'], what),
                         'sig': 'abort/%s/%s' % (sc_.get('fam', '?'), what)})
    for v in verdicts:
        v['stage'] = tag
    result['stages'].append({'stage': tag, 'mc': list(stage.mc) if stage.mc else None, 'states': states, 'transitions': trans,
                             'scripts': len(scripts), 'events': events, 'verdicts': len(verdicts), 'drift': len(drifts),
                             'distinct_nontrivial': len(nt), 'wall_s': round(time.time() - t0, 1)})
    result['states'] += states
    result['transitions'] += trans
    result['scripts'] += len(scripts)
    result['events'] += events
    result['nontrivial'] |= nt
    result['verdicts'] += verdicts
    result['drift'] += len(drifts)
    result['drift_samples'] += drifts[:3]
    result['notes'] += notes
    if scripts and len(result['samples']) < 6:
        step = max(1, len(scripts) // 3)
        result['samples'] += [{'stage': tag, 'script': s} for s in scripts[::step][:3]]
    result['script_of'][tag] = spath
    log('[%s] states=%d transitions=%d scripts=%d events=%d verdicts=%d drift=%d (%.1fs)' %
        (tag, states, trans, len(scripts), events, len(verdicts), len(drifts), time.time() - t0))


def get_script(path, sc):
    with open(path) as f:
        for i, line in enumerate(f):
            if i == sc:
                return json.loads(line)
    return None


# ----------------------------------------------------------------------------------------------- main
def write_evidence(pid, tier, seed, level, result, wall, violations, known_hits, assumptions, rule, extra=None):
    os.makedirs(EVID, exist_ok=True)
    cov = {
        'states': result['states'],
        'transitions': result['transitions'],
        'traces_validated_against_impl': result['scripts'],
        'samples': result['samples'][:6] or [{'note': 'no script generated'}],
        'evaluations': result['events'],
        'distinct_nontrivial': len(result['nontrivial']),
        'rule': rule,
        'exhaustive': True,
        'stages': result['stages'],
        'spec_drift_events': result['drift'],
        'spec_drift_samples': result['drift_samples'][:5],
        'known_finding_hits': known_hits,
        'checker_cmd': 'tlc (TLC2, tla2tools 1.8.0) on spec/MC_*.tla and spec/Trace_*.tla; harness/target/debug/conform replay',
    }
    cov['events_skipped_inexact'] = sum(1 for n in result['notes'] if n.get('inexact'))
    if extra:
        cov.update(extra)
    # keep a summary of the last run of the other tier (this file is rewritten on every run)
    path = os.path.join(EVID, pid + os.environ.get('VERIF_EVIDENCE_SUFFIX', '') + '.json')
    try:
        old = json.load(open(path))
        oc = old.get('coverage', {})
        summ = {'tier': old.get('tier'), 'wall_s': old.get('wall_s'), 'states': oc.get('states'), 'transitions': oc.get('transitions'),
                'traces_validated_against_impl': oc.get('traces_validated_against_impl'), 'evaluations': oc.get('evaluations'),
                'distinct_nontrivial': oc.get('distinct_nontrivial'), 'violations': len(old.get('violations', []) or []),
                'stages': [{'stage': st.get('stage'), 'scripts': st.get('scripts'), 'verdicts': st.get('verdicts')} for st in oc.get('stages', [])],
                'finished': oc.get('finished')}
        if old.get('tier') != tier:
            cov['last_run_of_other_tier'] = summ
        elif 'last_run_of_other_tier' in oc:
            cov['last_run_of_other_tier'] = oc['last_run_of_other_tier']
    except Exception:
        pass
    cov['finished'] = time.strftime('%Y-%m-%dT%H:%M:%SZ', time.gmtime())
    ev = {'property_id': pid, 'tier': tier, 'seed': seed, 'level': level, 'coverage': cov,
          'assumptions': assumptions, 'wall_s': round(wall, 1), 'violations': violations}
    with open(path, 'w') as f:
        json.dump(ev, f, indent=1)


def main(argv):
    import families
    if argv and argv[0] == '--setup':
        try:
            build_harness()
            # smoke test of the TLC installation and the specification modules
            wd = os.path.join(WORKROOT, 'setup')
            os.makedirs(wd, exist_ok=True)
            out = os.path.join(wd, 'selftest.out')
            run_tlc('SelfTest', 'SelfTest.cfg', out, wd, workers=4, timeout=900)
            st, tr, _, errors = parse_mc_output(out)
            if errors:
                raise ToolError('specification self-test failed: ' + errors[0])
            log('[setup] FM/Vec self-test ok (%d states)' % st)
            return 0
        except ToolError as e:
            log('TOOL-ERROR: %s' % e)
            return 2
    if not argv:
        log(__doc__)
        return 2
    pid = argv[0]
    tier = os.environ.get('VERIF_TIER', 'quick')
    replay_file = None
    i = 1
    while i < len(argv):
        if argv[i] == '--tier':
            tier = argv[i + 1]
            i += 2
        elif argv[i] == '--replay':
            replay_file = argv[i + 1]
            i += 2
        else:
            i += 1
    if tier not in ('quick', 'thorough'):
        tier = 'quick'
    seed = int(os.environ.get('VERIF_SEED', '0') or 0)
    if pid not in families.CHECKS:
        log('unknown property id %s' % pid)
        return 2
    chk = families.CHECKS[pid]
    t0 = time.time()
    workdir = os.path.join(WORKROOT, '%s-%s-%d' % (pid, tier, os.getpid()))
    shutil.rmtree(workdir, ignore_errors=True)
    os.makedirs(workdir)
    try:
        build_harness()
        result = {'states': 0, 'transitions': 0, 'scripts': 0, 'events': 0, 'nontrivial': set(), 'verdicts': [], 'drift': 0,
                  'drift_samples': [], 'samples': [], 'stages': [], 'script_of': {}, 'notes': [],
                  'tool_errors': []}
        if replay_file:
            rp = json.load(open(replay_file))
            stages = [s for s in chk['stages'](tier) if s.name == rp['stage']] or chk['stages'](tier)[:1]
            st = stages[0]
            rstage = Stage(st.name, st.trace, gen=lambda seed, tier: [rp['script']], shard_events=st.shard_events)
            run_stage(rstage, workdir, seed, tier, result)
        else:
            for st in chk['stages'](tier):
                run_stage(st, workdir, seed, tier, result)
        known = load_known()
        for v in result['verdicts']:
            if v.get('property') == '*':
                v['property'] = pid
        mine = [v for v in result['verdicts'] if v.get('property') == pid]
        other = [v for v in result['verdicts'] if v.get('property') != pid]
        known_hits = {}
        unknown = {}
        for v in mine:
            k = next((kf for kf in known if sig_matches(kf, v)), None)
            if k is not None:
                known_hits.setdefault(k['sig'], {'what': k.get('what', v['what']), 'count': 0})['count'] += 1
            else:
                unknown.setdefault(v['sig'], []).append(v)
        for sig, h in sorted(known_hits.items()):
            print('KNOWN-FINDING: property=%s %s [sig %s, %d event(s)]' % (pid, h['what'], sig, h['count']))
        os.makedirs(os.path.join(WORKROOT, 'replay'), exist_ok=True)
        nviol = 0
        for sig, vs in sorted(unknown.items()):
            v = vs[0]
            script = get_script(result['script_of'][v['stage']], v['sc'])
            rpath = os.path.join(WORKROOT, 'replay', '%s-%s.json' % (pid, hashlib.sha1(sig.encode()).hexdigest()[:10]))
            with open(rpath, 'w') as f:
                json.dump({'property': pid, 'stage': v['stage'], 'script': script, 'verdict': v, 'events_with_this_signature': len(vs),
                           'tier': tier, 'seed': seed}, f, indent=1)
            print('VIOLATION property=%s replay=%s' % (pid, rpath))
            print('  what: %s [sig %s, %d event(s)]' % (v['what'], sig, len(vs)))
            nviol += 1
        if other:
            log('[info] %d verdict(s) of other properties seen in these traces (decided by their own checks): %s' %
                (len(other), sorted({v['property'] for v in other})))
        if not replay_file:
            write_evidence(pid, tier, seed, chk.get('level', 'model_checking'), result, time.time() - t0, nviol,
                           {k: v['count'] for k, v in known_hits.items()}, chk.get('assumptions', []), chk.get('rule', ''),
                           extra={'other_property_verdicts': len(other)})
        sys.stdout.flush()
        if nviol:
            shutil.rmtree(workdir, ignore_errors=True)
            return 1
        if result['tool_errors']:
            log('TOOL-ERROR: %s (work directory kept: %s)' % (result['tool_errors'][0], workdir))
            return 2
        shutil.rmtree(workdir, ignore_errors=True)
        return 0
    except ToolError as e:
        log('TOOL-ERROR: %s' % e)
        return 2
