"""Per-property scenario families (stages) for quick and thorough tiers."""
import os
import random

from runner import Stage


# ------------------------------------------------------------------------------------------ arena (C12)
def arena_random(seed, tier):
    """seeded random histories on up to 16 slots; every step is recorded (continuity checked by the validator)"""
    rnd = random.Random(1000 + seed)
    n_hist, n_ops = (40, 60) if tier == 'quick' else (400, 200)
    scripts = []
    for h in range(n_hist):
        k = rnd.choice([2, 3])
        ops = [{'op': 'add_root', 'p': 0, 'l': 0, 'v': rnd.randrange(5)}]
        live = 1
        for _ in range(n_ops):
            r = rnd.random()
            p = rnd.randrange(0, 18)
            l = rnd.randrange(k)
            v = rnd.randrange(5)
            if r < 0.45 and live < 16:
                ops.append({'op': 'add_child', 'p': p, 'l': l, 'v': v})
            elif r < 0.60:
                ops.append({'op': 'try_remove_child', 'p': p, 'l': l, 'v': 0})
            elif r < 0.68:
                ops.append({'op': 'remove_all_descendants', 'p': p, 'l': 0, 'v': 0})
            elif r < 0.85:
                ops.append({'op': 'merge_child', 'p': p % 8, 'l': l, 'v': 0})
            else:
                ops.append({'op': 'update_node', 'p': p, 'l': 0, 'v': v})
        scripts.append({'fam': 'arena', 'k': k, 'ops': ops, 'all': True})
    return scripts


def arena_grown(seed, tier):
    """complete (and, seeded, partly thinned) K-ary trees of depth 2-3, then one removal at every node: nodes with all K children
    strictly below the node an operation is called on (the exhaustive arenas are too small for that when K = 3)"""
    rnd = random.Random(2000 + seed)
    scripts = []
    for k, depth in ((2, 3), (3, 2)):
        for variant in range(1 if tier == 'quick' else 4):
            ops = [{'op': 'add_root', 'p': 0, 'l': 0, 'v': 0}]
            level = [0]
            nxt = 1
            for _ in range(depth):
                new = []
                for p_ in level:
                    for l in range(k):
                        if variant > 0 and rnd.random() < 0.2:
                            continue
                        ops.append({'op': 'add_child', 'p': p_, 'l': l, 'v': nxt % 5})
                        new.append(nxt)
                        nxt += 1
                level = new
            for i in range(nxt):
                scripts.append({'fam': 'arena', 'k': k, 'ops': ops + [{'op': 'remove_all_descendants', 'p': i, 'l': 0, 'v': 0}], 'all': False})
                for l in range(k):
                    scripts.append({'fam': 'arena', 'k': k, 'ops': ops + [{'op': 'try_remove_child', 'p': i, 'l': l, 'v': 0}], 'all': False})
                    scripts.append({'fam': 'arena', 'k': k, 'ops': ops + [{'op': 'merge_child', 'p': i, 'l': l, 'v': 0}], 'all': False})
    return scripts


def arena_nontrivial(s):
    # non-trivial: the history contains at least one removal or merge before the last op (index reuse / shrinking)
    ops = s['ops']
    if any(o['op'] in ('try_remove_child', 'remove_all_descendants', 'merge_child') for o in ops[:-1]) or s.get('all'):
        return {'k': s['k'], 'ops': ops}
    return None


def c12_stages(tier):
    st = [Stage('arena-k2c5', 'Trace_Arena', mc=('MC_Arena', 'MC_Arena_k2c5.cfg'), nontrivial=arena_nontrivial),
          Stage('arena-k3c4', 'Trace_Arena', mc=('MC_Arena', 'MC_Arena_k3c4.cfg'), nontrivial=arena_nontrivial),
          Stage('arena-k2c4r', 'Trace_Arena', mc=('MC_Arena', 'MC_Arena_k2c4r.cfg'), nontrivial=arena_nontrivial),
          Stage('arena-k2c4v2', 'Trace_Arena', mc=('MC_Arena', 'MC_Arena_k2c4v2.cfg'), nontrivial=arena_nontrivial),
          Stage('arena-random', 'Trace_Arena', gen=arena_random, nontrivial=arena_nontrivial),
          Stage('arena-grown', 'Trace_Arena', gen=arena_grown, nontrivial=arena_nontrivial)]
    if tier == 'thorough':
        st += [Stage('arena-k2c6', 'Trace_Arena', mc=('MC_Arena', 'MC_Arena_k2c6.cfg'), nontrivial=arena_nontrivial, mc_workers=12),
               Stage('arena-k3c5', 'Trace_Arena', mc=('MC_Arena', 'MC_Arena_k3c5.cfg'), nontrivial=arena_nontrivial, mc_workers=12)]
        # two payload values on 5 slots: 40 588 states / 1.95 M transitions, about 35 min of replay + validation on its own;
        # together with k2c6 and k3c5 that is more than an hour, so it is opt-in (the two-value instance k2c4v2 runs in the quick tier)
        if os.environ.get('VERIF_ARENA_V2') == '1':
            st.append(Stage('arena-k2c5v2', 'Trace_Arena', mc=('MC_Arena', 'MC_Arena_k2c5v2.cfg'), nontrivial=arena_nontrivial, mc_workers=12))
    return st


# ------------------------------------------------------------------------------------------ iterators and metrics (C13)
def iter_nontrivial(s):
    # non-trivial: a run that contains a skip, or starts below the root, or a metrics script of a tree built with removals/merges
    if s.get('kind') == 'metrics':
        return s if any(o['op'] != 'add_child' for o in s['ops'][1:]) else None
    if 's' in s.get('sched', []) or s.get('start', 0) != 0:
        return s
    return None


def c13_stages(tier):
    st = [Stage('iter-k2c4', 'Trace_Iter', mc=('MC_Iter', 'MC_Iter_k2c4.cfg'), nontrivial=iter_nontrivial),
          Stage('iter-k3c4', 'Trace_Iter', mc=('MC_Iter', 'MC_Iter_k3c4.cfg'), nontrivial=iter_nontrivial),
          # PolyhedraIter / PolyhedraGen (pwl/iter.rs) over AffTrees: items and size_hint under skip schedules
          Stage('polyiter-s', 'Trace_Regions', mc=('MC_AffTree', 'MC_AffTree_regions_s.cfg'), shard_events=300, mc_workers=12)]
    if tier == 'thorough':
        st += [Stage('iter-k2c5', 'Trace_Iter', mc=('MC_Iter', 'MC_Iter_k2c5.cfg'), nontrivial=iter_nontrivial, mc_workers=12),
               Stage('iter-k2c5d', 'Trace_Iter', mc=('MC_Iter', 'MC_Iter_k2c5d.cfg'), nontrivial=iter_nontrivial, mc_workers=12)]
    return st


# ------------------------------------------------------------------------------------------ AffTree operations
def afftree_nontrivial(s):
    # non-trivial: the left operand has at least one decision and (binary ops) the right operand has at least one decision
    if len(s.get('lhs', [])) < 2:
        return None
    if s.get('op') in ('compose', 'compose_prune', 'add', 'sub', 'mul', 'div') and len(s.get('rhs', [])) < 2:
        return None
    return {k: v for k, v in s.items() if k not in ('sc', 'exp')}


def AT(name, cfg, **kw):
    return Stage(name, 'Trace_AffTree', mc=('MC_AffTree', cfg), nontrivial=afftree_nontrivial, shard_events=400, mc_workers=12, **kw)


def c02_stages(tier):
    st = [AT('compose-q', 'MC_AffTree_compose_q.cfg'), AT('compose-dim', 'MC_AffTree_compose_dim.cfg'),
          AT('compose-k4', 'MC_AffTree_compose_k4.cfg'), AT('compose-g2', 'MC_AffTree_compose_g2.cfg'),
          # terminals with a constant component that lies exactly on a threshold of the right operand (constant pulled-back predicates)
          AT('compose-z', 'MC_AffTree_compose_z.cfg'), AT('compose-zd', 'MC_AffTree_compose_zd.cfg'), AT('compose-d3', 'MC_AffTree_compose_d3.cfg'),
          # compose-k4r: terminals whose components coincide (pulled-back rows of a two-row predicate become equal or proportional)
          AT('compose-k4r', 'MC_AffTree_compose_k4r.cfg'),
          # compose-lt: triangular / diagonal terminal maps in the right operand; compose-1d: one input coordinate (the root predicate x <= 0
          # has the coefficients of the identity map)
          AT('compose-lt', 'MC_AffTree_compose_lt.cfg'), AT('compose-1d', 'MC_AffTree_compose_1d.cfg'), DR('compose')]
    if tier == 'thorough':
        st += [AT('compose-t', 'MC_AffTree_compose_t.cfg'), AT('compose-dimt', 'MC_AffTree_compose_dimt.cfg'),
               AT('compose-k4t', 'MC_AffTree_compose_k4t.cfg')]
    return st


def pscale_variants(modes, every, only_ops=None):
    """adds copies of (a sample of) the scripts whose decision predicates are multiplied by exact powers of two in the harness:
    the same half-spaces with ill-conditioned ("alt20") or tiny ("tiny60") numbers; recorded trees are scaled back exactly"""
    def post(scripts, seed, tier):
        extra = []
        for i, s in enumerate(scripts):
            if i % every != 0 or len(s.get('lhs', [])) < 2:
                continue
            if only_ops is not None and not all(st.get('op') in only_ops for st in s.get('steps', [])):
                continue
            for m in modes:
                c = dict(s)
                c['pscale'] = m
                c.pop('exp', None)
                extra.append(c)
        return scripts + extra
    return post


def regions_nontrivial(s):
    return {k: v for k, v in s.items() if k not in ('sc', 'exp')} if len(s.get('lhs', [])) >= 2 else None


def regions_post(scripts, seed, tier):
    """pscale variants, plus copies in which the tree is observed after an infeasible_elimination (cached states, removed branches)"""
    out = pscale_variants(['tiny60', 'alt20'], 7)(scripts, seed, tier)
    extra = []
    for i, s in enumerate(scripts):
        if i % 5 == 2 and len(s.get('lhs', [])) >= 2:
            c = dict(s)
            c['elim'] = True
            c.pop('exp', None)
            extra.append(c)
        if i % 5 == 4 and len(s.get('lhs', [])) >= 2:
            # a full traversal, then update_node on the root predicate, then the observed traversals
            c = dict(s)
            c['upd'] = True
            c.pop('exp', None)
            extra.append(c)
    return out + extra


def RG(name, cfg):
    return Stage(name, 'Trace_Regions', mc=('MC_AffTree', cfg), nontrivial=regions_nontrivial, shard_events=300, mc_workers=12,
                 post=regions_post)


def c09_stages(tier):
    # regions-k4: K = 4 trees with one- and two-row decisions, children under labels the predicate cannot produce included
    st = [RG('regions-q', 'MC_AffTree_regions_q.cfg'), RG('regions-k4', 'MC_AffTree_regions_k4.cfg'), DR('regions', 'Trace_Regions')]
    if tier == 'thorough':
        st += [RG('regions-t', 'MC_AffTree_regions_t.cfg'), RG('regions-k4t', 'MC_AffTree_regions_k4t.cfg')]
    return st


def history_nontrivial(s):
    return {k: v for k, v in s.items() if k not in ('sc', 'exp')} if len(s.get('lhs', [])) >= 2 or s.get('schema') else None


def HS(name, cfg, **kw):
    return Stage(name, 'Trace_AffTree', mc=('MC_AffTree', cfg), nontrivial=history_nontrivial, shard_events=300, mc_workers=12, **kw)


def prune_stages(tier):
    st = [HS('prune-q', 'MC_AffTree_prune_q.cfg', post=pscale_variants(['alt20'], 3, only_ops={'eliminate'})),
          HS('prune-2d', 'MC_AffTree_prune_2d.cfg'), HS('prune-d3', 'MC_AffTree_prune_d3.cfg'),
          HS('pruneg-q', 'MC_AffTree_pruneg_q.cfg'), HS('prunea-q', 'MC_AffTree_prunea_q.cfg'), HS('prunedeep-q', 'MC_AffTree_prunedeep_q.cfg'),
          # K = 4: two-row decisions below the root (cached witnesses must satisfy every row), children under labels no input takes
          HS('prune-k4', 'MC_AffTree_prune_k4.cfg'), DR('eliminate')]
    if tier == 'thorough':
        # prune-in3: trees over R^3 (three input coordinates)
        st += [HS('prune-t', 'MC_AffTree_prune_t.cfg'), HS('pruneg-t', 'MC_AffTree_pruneg_t.cfg'), HS('prune-in3', 'MC_AffTree_prune_in3.cfg')]
    return st


# ---- seeded random histories (deeper than the exhaustive bound), same operand alphabets as MC_AffTree history mode
def _aff(m, b):
    return {'m': m, 'b': b, 'q': 1}


def _script_of(tree):
    # tree = ('L', aff) | ('D', pred, [kid0, kid1]) with kid None = missing; DFS preorder, ascending labels (as ScriptOf "dfs")
    ops = [{'op': 'from_aff', 'p': 0, 'l': 0, 'a': tree[1]}]
    nxt = [1]

    def rec(t, idx):
        if t[0] != 'D':
            return
        for lab, kid in enumerate(t[2]):
            if kid is None:
                continue
            me = nxt[0]
            nxt[0] += 1
            ops.append({'op': 'add_child', 'p': idx, 'l': lab, 'a': kid[1]})
            rec(kid, me)
    rec(tree, 0)
    return ops


H_ID2 = _aff([[1, 0], [0, 1]], [0, 0])
H_COMPOSE = [('D', _aff([[1, 0]], [0]), [('L', H_ID2), ('L', _aff([[0, 0], [0, 1]], [0, 0]))]),
             ('D', _aff([[1, 0]], [0]), [None, ('L', _aff([[0, 0], [0, 1]], [0, 0]))]),
             ('D', _aff([[0, 1]], [1]), [('L', _aff([[0, 1], [1, 0]], [1, -2])), ('L', H_ID2)]),
             ('L', _aff([[0, 1], [1, 0]], [1, -2]))]
H_ARITH = [('D', _aff([[1]], [0]), [('L', _aff([[1], [-1]], [0, 0])), ('L', _aff([[0], [1]], [1, 1]))]),
           ('D', _aff([[-1]], [-1]), [('L', _aff([[2], [0]], [0, 1])), None]),
           ('L', _aff([[1], [2]], [0, 1]))]
H_AFF = [_aff([[0, 1], [1, 0]], [1, -2]), _aff([[1, 1], [0, 2]], [0, 0])]
H_PRED1 = [_aff([[1]], [0]), _aff([[-1]], [-1]), _aff([[1]], [-1]), _aff([[-1]], [0]), _aff([[0]], [-1])]
H_TERM12 = [_aff([[1], [-1]], [0, 0]), _aff([[0], [1]], [1, 1])]


def _rand_tree(rnd, depth):
    if depth == 0 or rnd.random() < 0.3:
        return ('L', rnd.choice(H_TERM12))
    kids = [None if rnd.random() < 0.15 else _rand_tree(rnd, depth - 1) for _ in range(2)]
    if kids[0] is None and kids[1] is None:
        kids[rnd.randrange(2)] = ('L', rnd.choice(H_TERM12))
    return ('D', rnd.choice(H_PRED1), kids)


def history_random(seed, tier):
    rnd = random.Random(4242 + seed)
    n_hist, depth = (60, 5) if tier == 'quick' else (1200, 6)
    noaff = {'m': [], 'b': [], 'q': 1}
    scripts = []
    for _ in range(n_hist):
        steps = []
        size = 1
        for _ in range(depth):
            r = rnd.random()
            if r < 0.22:
                steps.append({'op': 'eliminate', 'rhs': [], 'aff': noaff})
            elif r < 0.32:
                steps.append({'op': 'reduce', 'rhs': [], 'aff': noaff})
            elif r < 0.38:
                steps.append({'op': 'neg', 'rhs': [], 'aff': noaff})
            elif r < 0.48:
                steps.append({'op': 'apply_func', 'rhs': [], 'aff': rnd.choice(H_AFF)})
            elif r < 0.80 and size < 4:
                size += 1
                steps.append({'op': rnd.choice(['compose', 'compose_prune']), 'rhs': _script_of(rnd.choice(H_COMPOSE)), 'aff': noaff})
                if rnd.random() < 0.15:
                    # a composition that changes the output dimension ends the history with operations that do not depend on it
                    steps.append({'op': 'eliminate', 'rhs': [], 'aff': noaff})
                    steps.append({'op': rnd.choice(['compose', 'compose_prune']), 'rhs': _script_of(('L', _aff([[1, 1]], [3]))), 'aff': noaff})
                    steps.append({'op': rnd.choice(['eliminate', 'reduce', 'neg']), 'rhs': [], 'aff': noaff})
                    break
            elif size < 4:
                size += 1
                steps.append({'op': rnd.choice(['add', 'sub']), 'rhs': _script_of(rnd.choice(H_ARITH)), 'aff': noaff})
            else:
                steps.append({'op': 'eliminate', 'rhs': [], 'aff': noaff})
        sc = {'fam': 'afftree', 'k': 2, 'q': 1, 'mode': 'history', 'lhs': _script_of(_rand_tree(rnd, 2)), 'steps': steps, 'faults': [], 'all': True}
        if rnd.random() < 0.3:
            # start from the from_poly constructor (with / without else-branch) instead of a hand-built tree
            rows = rnd.sample([([1], 1), ([-1], 0), ([1], -1), ([0], 1), ([-1], -2)], rnd.choice([1, 2]))
            sc['schema'] = {'name': 'from_poly', 'dim': 1, 'row': 0, 'q': 1,
                            'poly': {'m': [r[0] for r in rows], 'b': [r[1] for r in rows], 'q': 1, 'n': 1},
                            't': H_TERM12[0], 'hasf': rnd.random() < 0.5, 'f': H_TERM12[1]}
            sc['lhs'] = [{'op': 'from_aff', 'p': 0, 'l': 0, 'a': H_TERM12[0]}, {'op': 'from_aff', 'p': 0, 'l': 0, 'a': H_TERM12[0]}]
        scripts.append(sc)
    return scripts


# ---- seeded random larger trees over R^2 (deeper and wider than the exhaustive bounds), judged by the same validators
D_PRED2 = [_aff([[1, 0]], [0]), _aff([[0, 1]], [1]), _aff([[1, 1]], [1]), _aff([[1, -1]], [0]), _aff([[-1, 0]], [0]), _aff([[1, 0]], [-1]),
           _aff([[-1, -1]], [-2]), _aff([[0, 1]], [0]), _aff([[2, 1]], [1]), _aff([[0, -1]], [-2])]
D_TERM22 = [_aff([[1, 0], [0, 1]], [0, 0]), _aff([[0, 1], [1, 0]], [1, -2]), _aff([[2, 0], [0, -1]], [0, -1]), _aff([[0, 0], [0, 1]], [0, 0]),
            _aff([[1, 1], [1, -1]], [0, 1]), _aff([[1, 0], [0, 1]], [0, 1]), _aff([[1, 0], [2, 1]], [0, 1])]
NOAFF = {'m': [], 'b': [], 'q': 1}


def _rand_tree2(rnd, depth, terms, pmiss=0.1, pleaf=0.25):
    if depth == 0 or rnd.random() < pleaf:
        return ('L', rnd.choice(terms))
    kids = [None if rnd.random() < pmiss else _rand_tree2(rnd, depth - 1, terms, pmiss, pleaf) for _ in range(2)]
    if kids[0] is None and kids[1] is None:
        kids[rnd.randrange(2)] = ('L', rnd.choice(terms))
    return ('D', rnd.choice(D_PRED2), kids)


def deep_random(kind):
    """kind: reduce | compose | arith | eliminate | regions. Every scenario is a tree (pair) with up to 15 decisions."""
    def gen(seed, tier):
        rnd = random.Random(hash(kind) % 100000 + 7 * seed) if False else random.Random(sum(map(ord, kind)) * 1000 + seed)
        n = (60 if kind == 'elimreduce' else 24) if tier == 'quick' else 1500
        out = []
        for _ in range(n):
            if kind == 'reduce':
                # two terminal functions only, no missing children: merges cascade over several levels
                pair = rnd.choice([D_TERM22[:2], [D_TERM22[0], _aff([[0, 1], [1, 0]], [0, 0])], [_aff([[0, 0], [0, 0]], [1, 0]), _aff([[0, 0], [0, 0]], [0, 1])]])
                t = _rand_tree2(rnd, 4, pair, pmiss=0.0 if rnd.random() < 0.7 else 0.15, pleaf=0.2)
                out.append({'fam': 'afftree', 'k': 2, 'q': 1, 'mode': 'reduce', 'lhs': _script_of(t), 'rhs': [], 'op': 'reduce', 'aff': NOAFF})
            elif kind == 'compose':
                f = _rand_tree2(rnd, 3, D_TERM22)
                g = _rand_tree2(rnd, 2, D_TERM22)
                out.append({'fam': 'afftree', 'k': 2, 'q': 1, 'mode': 'compose', 'lhs': _script_of(f), 'rhs': _script_of(g),
                            'op': rnd.choice(['compose', 'compose', 'compose_prune']), 'aff': NOAFF})
            elif kind == 'arith':
                f = _rand_tree2(rnd, 3, D_TERM22)
                if rnd.random() < 0.3:
                    out.append({'fam': 'afftree', 'k': 2, 'q': 1, 'mode': 'arithaff', 'lhs': _script_of(f), 'rhs': [],
                                'op': rnd.choice(['neg', 'add_aff', 'sub_aff', 'mul_aff']), 'aff': rnd.choice(D_TERM22)})
                else:
                    g = _rand_tree2(rnd, 2, D_TERM22)
                    out.append({'fam': 'afftree', 'k': 2, 'q': 1, 'mode': 'arith', 'lhs': _script_of(f), 'rhs': _script_of(g),
                                'op': rnd.choice(['add', 'sub', 'mul']), 'aff': NOAFF})
            elif kind == 'eliminate' and len(out) < 4:
                # combs: a chain of n decisions x <= j (j = 1..n) along label 1 after x <= 0 at the root: every label-0 side is infeasible,
                # so one elimination run finds n infeasible nodes (more than any buffer of the implementation holds at once)
                n_comb = [17, 20, 24, 33][len(out)]
                def comb(j):
                    if j > n_comb:
                        return ('L', D_TERM22[0])
                    return ('D', _aff([[1, 0]], [j]), [('L', D_TERM22[1 + j % 2]), comb(j + 1)])
                t = ('D', _aff([[1, 0]], [0]), [('L', D_TERM22[3]), comb(1)])
                out.append({'fam': 'afftree', 'k': 2, 'q': 1, 'mode': 'history', 'lhs': _script_of(t),
                            'steps': [{'op': 'eliminate', 'rhs': [], 'aff': NOAFF}], 'faults': [], 'all': True})
            elif kind == 'eliminate':
                t = _rand_tree2(rnd, 4, D_TERM22, pmiss=0.1, pleaf=0.15)
                steps = [{'op': 'eliminate', 'rhs': [], 'aff': NOAFF}]
                if rnd.random() < 0.5:
                    steps = [{'op': rnd.choice(['compose', 'compose_prune']), 'rhs': _script_of(_rand_tree2(rnd, 1, D_TERM22)), 'aff': NOAFF}] + steps
                out.append({'fam': 'afftree', 'k': 2, 'q': 1, 'mode': 'history', 'lhs': _script_of(t), 'steps': steps, 'faults': [], 'all': True})
            elif kind == 'elimreduce':
                # reduce on a tree that carries cached feasibility states (and holes in the arena) from an earlier elimination
                t = _rand_tree2(rnd, 3, D_TERM22[:2], pmiss=0.0 if rnd.random() < 0.7 else 0.15, pleaf=0.2)
                out.append({'fam': 'afftree', 'k': 2, 'q': 1, 'mode': 'history', 'lhs': _script_of(t),
                            'steps': [{'op': 'eliminate', 'rhs': [], 'aff': NOAFF}, {'op': 'reduce', 'rhs': [], 'aff': NOAFF}], 'faults': [], 'all': True})
            elif kind == 'reducetwice':
                # reduce ; an in-place change of the terminals that makes siblings identical (constant map) ; reduce again
                t = _rand_tree2(rnd, 3, D_TERM22, pmiss=0.0 if rnd.random() < 0.7 else 0.15, pleaf=0.2)
                const = rnd.choice([_aff([[0, 0], [0, 0]], [1, 2]), _aff([[1, 1], [1, 1]], [0, 0])])
                out.append({'fam': 'afftree', 'k': 2, 'q': 1, 'mode': 'history', 'lhs': _script_of(t),
                            'steps': [{'op': 'reduce', 'rhs': [], 'aff': NOAFF}, {'op': 'apply_func', 'rhs': [], 'aff': const},
                                      {'op': 'reduce', 'rhs': [], 'aff': NOAFF}], 'faults': [], 'all': True})
            elif kind == 'regions':
                t = _rand_tree2(rnd, 4, D_TERM22)
                nn = len(_script_of(t))
                sched = []
                for j in range(nn):
                    sched.append('n')
                    if rnd.random() < 0.12:
                        sched.append('s')
                out.append({'fam': 'regions', 'k': 2, 'q': 1, 'mode': 'regions', 'lhs': _script_of(t), 'rhs': [], 'op': 'regions', 'sched': sched, 'aff': NOAFF})
        return out
    return gen


def DR(kind, trace='Trace_AffTree', shard=8):
    nt = regions_nontrivial if kind == 'regions' else (history_nontrivial if kind in ('eliminate', 'elimreduce', 'reducetwice') else afftree_nontrivial)
    return Stage('deep-' + kind, trace, gen=deep_random(kind), nontrivial=nt, shard_events=shard)


# ---- seeded random histories over R^2 (trees with up to 7 decisions, wider operand sets, remove_axes as a step)
H_ARITH2 = [('D', _aff([[1, 0]], [0]), [('L', _aff([[1, 0], [0, 1]], [0, 1])), ('L', _aff([[0, 1], [1, 0]], [1, -2]))]),
            ('D', _aff([[1, 1]], [1]), [('L', _aff([[2, 0], [0, -1]], [0, -1])), None]),
            ('L', _aff([[1, 1], [1, -1]], [0, 1]))]


def history2d_random(seed, tier):
    rnd = random.Random(777 + seed)
    n_hist, depth = (40, 4) if tier == 'quick' else (1200, 6)
    scripts = []
    for _ in range(n_hist):
        steps = []
        size = 1
        dim = 2
        for _ in range(depth):
            r = rnd.random()
            if r < 0.22:
                steps.append({'op': 'eliminate', 'rhs': [], 'aff': NOAFF})
            elif r < 0.30:
                steps.append({'op': 'reduce', 'rhs': [], 'aff': NOAFF})
            elif r < 0.36:
                steps.append({'op': 'neg', 'rhs': [], 'aff': NOAFF})
            elif r < 0.44:
                steps.append({'op': 'apply_func', 'rhs': [], 'aff': rnd.choice(H_AFF)})
            elif r < 0.54 and dim == 2:
                # drop one input coordinate: the tree is restricted to the slice where it is 0; later operands live on R^1
                dim = 1
                steps.append({'op': 'remove_axes', 'rhs': [], 'aff': NOAFF, 'mask': rnd.choice([[True, False], [False, True]])})
            elif r < 0.80 and size < 3:
                size += 1
                steps.append({'op': rnd.choice(['compose', 'compose_prune']), 'rhs': _script_of(rnd.choice(H_COMPOSE)), 'aff': NOAFF})
            elif size < 3:
                size += 1
                steps.append({'op': rnd.choice(['add', 'sub']), 'rhs': _script_of(rnd.choice(H_ARITH2 if dim == 2 else H_ARITH)), 'aff': NOAFF})
            else:
                steps.append({'op': 'eliminate', 'rhs': [], 'aff': NOAFF})
        t = _rand_tree2(rnd, 3, D_TERM22, pmiss=0.12, pleaf=0.2)
        scripts.append({'fam': 'afftree', 'k': 2, 'q': 1, 'mode': 'history', 'lhs': _script_of(t), 'steps': steps, 'faults': [], 'all': True})
    return scripts


def history_stages(tier):
    # exhaustive histories of depth 2 (3) merged on the reached tree, plus seeded random histories of depth 5-6 (every step recorded)
    rnd_stage = Stage('history-random', 'Trace_AffTree', gen=history_random, nontrivial=history_nontrivial, shard_events=40)
    rnd2_stage = Stage('history-2d', 'Trace_AffTree', gen=history2d_random, nontrivial=history_nontrivial, shard_events=12)
    if tier == 'thorough':
        return [HS('history-t', 'MC_AffTree_history_t.cfg'), rnd_stage, rnd2_stage]
    return [HS('history-q', 'MC_AffTree_history_q.cfg'), rnd_stage, rnd2_stage]


def c03_stages(tier):
    # pruning scenarios, plus the operation histories (pruned composition followed by elimination and the like) and pruned
    # composition onto terminals with a constant component (pruneg-z)
    return prune_stages(tier) + [HS('pruneg-z', 'MC_AffTree_pruneg_z.cfg')] + history_stages(tier)


def c04_stages(tier):
    # compose-zd: constant terminals composed with partial, dimension-changing operands (every terminal must end up with the new output dimension)
    # schema-q: the predefined trees are well-formed (one output dimension)
    return history_stages(tier) + prune_stages(tier)[:1] + [AT('compose-g2', 'MC_AffTree_compose_g2.cfg'), AT('compose-zd', 'MC_AffTree_compose_zd.cfg'),
                                                             DS('schema-q', 'MC_Distill_schema_q.cfg')]


def c05_stages(tier):
    # histories, pruning pipelines, and the witness-repair heuristic mirror_points on its own
    return history_stages(tier) + prune_stages(tier) + [DS('slice-q', 'MC_Distill_slice_q.cfg', shard_events=300), Stage('mirror-q', 'Trace_Linalg', mc=('MC_Linalg', 'MC_Linalg_mirror_q.cfg'), shard_events=400, mc_workers=12)]


def c06_stages(tier):
    # pruning scenarios plus the terminal-count bounds of distilled ReLU networks
    # slice-q: elimination ; remove_axes ; elimination (cached states of the first run must not survive the change of the input space)
    return [s for s in prune_stages(tier) if not s.name.startswith('prunea')] + c01_stages(tier) + [DS('slice-q', 'MC_Distill_slice_q.cfg', shard_events=300)]


# ------------------------------------------------------------------------------------------ linalg (C10, C14, C15, C16)
def LA(name, cfg, **kw):
    return Stage(name, 'Trace_Linalg', mc=('MC_Linalg', cfg), shard_events=400, mc_workers=12, **kw)


def c14_stages(tier):
    return [LA('poly-t', 'MC_Linalg_poly_t.cfg')] if tier == 'thorough' else [LA('poly-q', 'MC_Linalg_poly_q.cfg')]


def c15_stages(tier):
    return [LA('clean-t', 'MC_Linalg_clean_t.cfg')] if tier == 'thorough' else [LA('clean-q', 'MC_Linalg_clean_q.cfg')]


def c16_stages(tier):
    if tier == 'thorough':
        return [LA('aff-t', 'MC_Linalg_aff_t.cfg')]       # superset of aff-q: more shapes and magnitudes
    return [LA('aff-q', 'MC_Linalg_aff_q.cfg')]


def c10_stages(tier):
    st = [LA('lp-t', 'MC_Linalg_lp_t.cfg')] if tier == 'thorough' else [LA('lp-q', 'MC_Linalg_lp_q.cfg')]
    # plus every LP call the library makes during pruning scenarios (in-situ, through the LP tap)
    return st + prune_stages(tier)[:2]   # prune-q, prune-2d


LINALG_NOTE = ('Small scope: integer data (exact in f64), dimension <= 3, <= 2-4 rows; rows with irrational norms are outside the exact '
               'universe and only checked where the result stays rational. Trusted: TLC, FM (SelfTest), the JSON projection.')


# ------------------------------------------------------------------------------------------ distill (C01, C17, C18)
def DS(name, cfg, **kw):
    return Stage(name, 'Trace_Distill', mc=('MC_Distill', cfg), shard_events=kw.pop('shard_events', 60), mc_workers=12, **kw)


def c17_stages(tier):
    if tier == 'thorough':
        return [DS('schema-t', 'MC_Distill_schema_t.cfg'), DS('slice-q', 'MC_Distill_slice_q.cfg', shard_events=300), history_stages(tier)[-1]]
    # history-2d: remove_axes in the middle of operation histories
    return [DS('schema-q', 'MC_Distill_schema_q.cfg'), DS('slice-q', 'MC_Distill_slice_q.cfg', shard_events=300), history_stages(tier)[-1]]


def wscale_variants(scripts, seed, tier):
    """copies of the networks with positively homogeneous activations and a head, with the first layer multiplied by 2^20 in the harness:
    the same function (argmax / class head are scale invariant) computed with ill-conditioned numbers"""
    extra = []
    for s in scripts:
        ks = [l['k'] for l in s['layers']]
        if ks[-1] in ('argmax', 'class_char') and all(k in ('linear', 'relu', 'leaky', 'argmax', 'class_char') for k in ks) and ks.count('linear') >= 1:
            for k in (20, 26):
                c = dict(s)
                c['wscale'] = k
                extra.append(c)
    return scripts + extra


def c01_stages(tier):
    if tier == 'thorough':
        return [DS('distill-t', 'MC_Distill_distill_t.cfg', shard_events=30, post=wscale_variants)]
    return [DS('distill-q', 'MC_Distill_distill_q.cfg', shard_events=30, post=wscale_variants)]


def c18_stages(tier):
    return [DS('arch-t' if tier == 'thorough' else 'arch-q', 'MC_Distill_arch_t.cfg' if tier == 'thorough' else 'MC_Distill_arch_q.cfg', shard_events=200),
            DS('npz-q', 'MC_Distill_npz_q.cfg', shard_events=200)]


# ------------------------------------------------------------------------------------------ renderings (C19)
def format_tree_post(scripts, seed, tier):
    """copies of a sample of the tree scenarios that are rendered after an infeasible_elimination"""
    extra = [dict(s, elim=True) for i, s in enumerate(scripts) if i % 4 == 1 and s.get('kind') == 'tree' and len(s.get('lhs', [])) >= 2]
    return scripts + extra


def c19_stages(tier):
    return [Stage('format-rows', 'Trace_Format', mc=('MC_Format', 'MC_Format_l2.cfg' if tier == 'thorough' else 'MC_Format_l1.cfg'), shard_events=1000, mc_workers=12),
            Stage('format-trees', 'Trace_Format', mc=('MC_AffTree', 'MC_AffTree_format_q.cfg'), shard_events=300, mc_workers=12, post=format_tree_post),
            # terminals R^2 -> R^1 that coincide with predicates (a decision and a terminal next to each other hold the same matrix and bias)
            Stage('format-trees-p', 'Trace_Format', mc=('MC_AffTree', 'MC_AffTree_format_p.cfg'), shard_events=300, mc_workers=12),
            # K = 4: Display of nodes with up to four children (DOT export exists for binary trees only)
            Stage('format-trees-k4', 'Trace_Format', mc=('MC_AffTree', 'MC_AffTree_format_k4.cfg'), shard_events=300, mc_workers=12)]


def fault_stages(tier):
    if tier == 'thorough':
        return [HS('fault-t', 'MC_AffTree_fault_t.cfg'), HS('fault-2dt', 'MC_AffTree_fault_2dt.cfg')]
    # fault-2d: trees over R^2 (the witness repair by mirroring works on points with more than one coordinate)
    return [HS('fault-q', 'MC_AffTree_fault_q.cfg'), HS('fault-2d', 'MC_AffTree_fault_2d.cfg')]


def c07_stages(tier):
    st = [AT('arith-q', 'MC_AffTree_arith_q.cfg'), AT('arithaff-q', 'MC_AffTree_arithaff_q.cfg'), AT('arith-deep', 'MC_AffTree_arith_deep.cfg'), AT('arith-k4', 'MC_AffTree_arith_k4.cfg'),
          # operands that carry cached feasibility states from an earlier elimination
          HS('prunea-q', 'MC_AffTree_prunea_q.cfg'), DR('arith')]
    if tier == 'thorough':
        st += [AT('arith-t', 'MC_AffTree_arith_t.cfg')]
    return st


def c08_stages(tier):
    # reduce-x: terminals that differ although their coefficient differences cancel in sum
    st = [AT('reduce-q', 'MC_AffTree_reduce_q.cfg'), AT('reduce-p', 'MC_AffTree_reduce_p.cfg'), AT('reduce-x', 'MC_AffTree_reduce_x.cfg'), DR('reduce'), DR('elimreduce'), DR('reducetwice')]
    if tier == 'thorough':
        st += [AT('reduce-t', 'MC_AffTree_reduce_t.cfg')]
    return st


AFFTREE_NOTE = ('Small scope: integer data (E-universe, exact f64 arithmetic, checked per node by an exactness bit), input dimension <= 2, '
                'operand trees with <= 2-4 decisions from small alphabets; trusted: TLC, the FM decision procedure (validated by '
                'spec/SelfTest.tla at setup), the JSON projection of the harness.')

NOT_APPLICABLE = {}

CHECKS = {
    'C02': {
        'stages': c02_stages,
        'level_text': 'The grafting composition algorithm (spec/AffTreeL1.tla, written step for step like generic_composition_inplace) is '
                      'model-checked against the L0 composition law on piece sets (definedness included) for all operand pairs from the '
                      'alphabets (total/partial, K in {2,4}, dimension-changing maps, several arena layouts); every pair is replayed on the '
                      'real crate and TLC decides h = g after f on the recorded trees by Fourier-Motzkin (all real inputs, boundaries '
                      'included), plus the implementation\'s own evaluate() on a grid, right operand unchanged, indices kept.',
        'level_note': AFFTREE_NOTE,
        'design_ref': 'DESIGN.md 6/C02',
        'rule': 'one script per (left tree, layout, right tree); non-trivial = both operands contain a decision',
        'assumptions': ['E-universe integer data; q=1'],
    },
    'C09': {
        'stages': c09_stages,
        'level_text': 'For every tree with <= 3 decisions (total/partial, several arena layouts) and every skip position, the model checks '
                      'that the closed path polytope PolyhedraGen builds contains the routing region of the node and that its interior is routed '
                      'through the node; the harness records the real polyhedra() stream, find_terminal and path_to_node on a grid with points '
                      'on hyperplanes, and TLC decides by FM on the recorded polytopes: routing region inside reported polytope, interior of '
                      'reported polytope routed through the node, disjoint interiors, cover for total trees, stream = reference DFS with depth '
                      'and sibling counters under skips.',
        'level_note': AFFTREE_NOTE,
        'design_ref': 'DESIGN.md 6/C09',
        'rule': 'one script per (tree, layout, set of skip positions); non-trivial = tree with at least one decision',
        'assumptions': ['E-universe integer data; q=1', 'grid: half-integers in [-2,2]^2 (contains every breakpoint of the alphabet)'],
    },
    'C03': {
        'stages': c03_stages,
        'level_text': 'infeasible_elimination (DFS with cached states, witness inheritance, LP oracle, deferred removal, forwarding) and pruned '
                      'composition are modelled step for step (spec/AffTreeL1.tla) and model-checked: the function is unchanged up to regions with '
                      'empty interior, caches are sound, elimination is effective and idempotent on total trees. Every scenario (single '
                      'elimination, pruned composition, eliminate/compose/eliminate and eliminate/add pipelines that create cached states) is '
                      'replayed on the real crate; TLC decides on the recorded pre/post trees by FM that the function is unchanged, that every '
                      'removed node lies on a path without interior or is a decision all of whose other branches are such paths.',
        'level_note': AFFTREE_NOTE + ' Thin (zero-width) regions may be answered either way by the LP solver; differences are tolerated only there.',
        'design_ref': 'DESIGN.md 6/C03',
        'rule': 'one history script per (tree, pipeline[, right operand]); non-trivial = left tree has a decision',
        'assumptions': ['E-universe integer data; q=1', 'predicate alphabets contain strictly feasible, closed-empty, zero-width and zero-row cases'],
    },
    'C14': {
        'stages': c14_stages,
        'level_text': 'A calculator machine over polytopes: every constructor (rows, hypercube, hyperrectangle, axis_bounds with infinite bounds, '
                      'unbounded, empty, simplex, cross_polytope, from_normal, intersection_n of nothing) followed by pipelines of translate / '
                      'intersection(_n) / apply_pre / apply_post / rotate with vectors, maps and unimodular / orthogonal matrices from small '
                      'alphabets. The L1 coefficient formulas are model-checked against the L0 set definitions by FM; every transition is '
                      'replayed and TLC decides SetEq(result, definition) on the recorded rows, contains() on a half-integer grid including '
                      'boundary points, and sign and magnitude of distance() for integer-norm rows.',
        'level_note': LINALG_NOTE,
        'design_ref': 'DESIGN.md 6/C14',
        'rule': 'one script per (constructor, pipeline); non-trivial = distinct by canonical hash',
        'assumptions': ['apply_post / rotate are checked with integer matrices whose inverse is integer (image pulled back through the map)'],
    },
    'C15': {
        'stages': c15_stages,
        'level_text': 'All systems of <= 2 (3) rows from an alphabet of duplicates, positively / negatively scaled copies, parallel rows, zero rows '
                      'with bias -1/0/1, equality pairs, empty and unbounded sets, through each clean-up: TLC decides on the recorded result that '
                      'the point set is unchanged (or canonical empty for an infeasible input), that the result rows are a subsequence of the input '
                      'rows (up to a positive factor for normalize, by cross-multiplication), that nothing the operation promises to drop is left, '
                      'and for remove_redundant_row_constraints that no remaining row is implied by the others by a margin (exact maximum by FM).',
        'level_note': LINALG_NOTE + ' remove_rows is checked for dropping exactly the requested rows.',
        'design_ref': 'DESIGN.md 6/C15',
        'rule': 'one script per (system, operation); non-trivial = distinct by canonical hash',
        'assumptions': ['normalize only on rows with integer norm (results logged at scale 30)'],
    },
    'C16': {
        'stages': c16_stages,
        'level_text': 'Every named constructor in dimensions 1-4 with every index / parameter of the alphabet, compose / stack over all '
                      'dimension-compatible pairs, + - * / % in all ownership variants, negation (three forms), row, row_iter, remove_rows, '
                      'remove_zero_rows, remove_zero_columns, from_row_iter, view/owned, as_polytope / as_function, every PolyRepr: TLC compares the '
                      'recorded coefficients with the documented definition (affine maps are equal iff their coefficients are) and evaluates '
                      'compose(f,g)(x) = f(g(x)) and apply on a grid.',
        'level_note': LINALG_NOTE,
        'design_ref': 'DESIGN.md 6/C16',
        'rule': 'one script per (operation, arguments); non-trivial = distinct by canonical hash',
        'assumptions': ['% is the truncated remainder of f64 on integers', 'division pairs have exact quotients and no zero divisor'],
    },
    'C10': {
        'stages': c10_stages,
        'level_text': 'All systems of <= 2 rows over {-1,0,1}^2 x {-1,0,1} (and 3-4 rows from a sub-alphabet with zero rows, parallel rows, '
                      'equality pairs, empty and unbounded sets) x 5 objectives: TLC decides with exact FM procedures (interior, feasibility, exact '
                      'minimum) that status / is_feasible / solve_linprog answer within what the property allows, that witnesses lie in the set, '
                      'that the Chebyshev program is the documented one and its solution the inradius; plus every LP the library itself asks '
                      'during pruning scenarios (LP tap).',
        'level_note': LINALG_NOTE + ' Zero-width sets may be answered either way (property text).',
        'design_ref': 'DESIGN.md 6/C10',
        'rule': 'one script per (system, objective); non-trivial = distinct by canonical hash',
        'assumptions': ['minilp back end (crate default); HiGHS is not built'],
    },
    'C17': {
        'stages': c17_stages,
        'level_text': 'Every predefined tree for dims 1-3 (4), every row / class and a parameter alphabet with breakpoint coincidences '
                      '(alpha in {0, 1/2, 2, -1}, min<=max incl. min=max, lambda incl. 0, threshold/value pairs, optional bounds), from_poly with '
                      'and without else-branch over 1-3 row polytopes (zero rows, empty, zero-width): the generator as schema.rs builds it (L1) is '
                      'model-checked against the textbook definition (L0 pieces) by FM; the real generator output is recorded and TLC decides '
                      'PwlEq(Pieces(tree), Textbook) - all inputs, breakpoints and ties included - plus evaluate() on a half-integer grid; '
                      'from_slice ; compose ; remove_axes against the restriction of the piece set.',
        'level_note': 'Exact rational data (scales 1, 2, 6); dims <= 4; trusted: TLC, FM, JSON projection. Textbook definitions are those of the '
                      'standard references (hard-shrink strict, threshold x > t, argmax = first maximal index, class characterisation = is maximal).',
        'design_ref': 'DESIGN.md 6/C17',
        'rule': 'one script per specification; distinct by canonical hash',
        'assumptions': [],
    },
    'C01': {
        'stages': c01_stages,
        'level_text': 'Layer sequences (input dim 1-2, one or two linear layers of width <= 2 from weight alphabets, every activation kind on all '
                      'neurons or on one, optional argmax / class head for every class) x preconditions (none, box, empty, zero-width): the L1 '
                      'model of afftree_from_layers (compose, eliminate, pruned compose for heads) is model-checked against NetPieces - the '
                      'network semantics by activation patterns, no trees involved; the real distilled tree is recorded and TLC decides equality '
                      'with NetPieces by FM for all inputs (exact, breakpoints and ties included, undefined outside the precondition) plus '
                      'evaluate() on a grid.',
        'level_note': 'Exact rational data at scale 12 (1/2, 1/6 representable); networks whose values leave that scale are validated only where '
                      'every recorded node is exact (per-node exactness bit). The shipped MNIST / iris networks are not validated numerically.',
        'design_ref': 'DESIGN.md 6/C01',
        'rule': 'one script per (network, precondition); distinct by canonical hash',
        'assumptions': ['precondition trees are built with from_poly(P, identity, None)'],
    },
    'C18': {
        'stages': c18_stages,
        'level_text': 'The Architecture builder as a state machine: all call sequences of length <= 3 (4) over linear layers of several shapes, '
                      'partial and whole-layer activations with indices 0-2 and argmax, valid and invalid; the specification (accept iff '
                      'dimension-compatible, shape = output dimension of accepted layers) is model-checked and every sequence replayed: TLC checks '
                      'acceptance, tracked shape and operator count after every call, that the accepted architecture distills, and for every '
                      'split point that Pieces(tree(0,k)) composed with Pieces(tree(k,n)) equals Pieces(tree(0,n)). Layer files: every net of the '
                      'dialect alphabet written in reverse archive order with and without ".npy" suffix and "layers" entry is read back and '
                      'compared with the expansion (weights, one activation entry per neuron).',
        'level_note': 'Dims <= 3; npz files are written by the harness with ndarray-npy (3-digit zero-padded indices as in the shipped files).',
        'design_ref': 'DESIGN.md 6/C18',
        'rule': 'one script per call sequence / per file; distinct by canonical hash',
        'assumptions': ['argmax requires dimension >= 2 and yields shape 1 (documented behaviour of the argmax schema)'],
    },
    'C19': {
        'level': 'model_checking',
        'stages': c19_stages,
        'level_text': 'Token level. Rows from an alphabet with negative zero, fractions, ties in magnitude and all-zero rows x every '
                      'combination of FormatOptions from small ranges (sorting thresholds, simplify_zero, simplify_tautologies, normalize, axis '
                      'and row skip ranges) x precisions x polytope / function view: the L1 token stream of impl_affineformat is model-checked '
                      'against the faithfulness formulas; the real Display output is lexed by the harness and TLC checks per displayed row that '
                      'every shown coefficient stands next to the index of the variable it multiplies with the stored sign and the stored '
                      'magnitude at the printed precision (after the positive max-norm scaling when normalised), bias and direction, order under '
                      'sorting, and that anything omitted is covered by an ellipsis. Trees (several arena layouts): DOT and Display contain '
                      'exactly one statement per node / edge with the node\'s own function or predicate, kind flag, label and target.',
        'level_note': 'The lexer of the harness (harness/src/format.rs, about 100 lines) is trusted. Values are multiples of 1/8; magnitudes are '
                      'compared within half a unit of the last printed digit.',
        'design_ref': 'DESIGN.md 6/C19',
        'rule': 'one script per (rows, bias, options, precision, view) and per tree layout; distinct by canonical hash',
        'assumptions': ['node shapes / styles in DOT are not part of the property'],
    },
    'C11': {
        'stages': fault_stages,
        'level': 'fault_enumeration',
        'level_text': 'LP faults are environment actions of the elimination model (Error => Indeterminate, Unbounded => Feasible, perturbed / '
                      'far-off witness => repaired inside the region or Indeterminate): for every tree and every fault plan of bounded size TLC '
                      'checks function unchanged, caches sound, well-formed, only less pruning. On the real crate the harness learns the number N '
                      'of LP calls of the fault-free run through the cfg(affinitree_verif) LP tap and re-runs infeasible_elimination and pruned '
                      'composition once per plan (all subsets of call positions up to the bound x 4 fault kinds); TLC evaluates the C11 formulas '
                      'on every recorded run (no panic, function unchanged by FM, cache formulas, nodes of the fault-free result all kept).',
        'level_note': AFFTREE_NOTE + ' Fault kinds are the four of the property; perturbed = 0.01 outside a facet, far-off = 1000 outside. '
                      'Subsets of size <= 1 (quick) / <= 2 (thorough), capped at 400 plans per scenario.',
        'design_ref': 'DESIGN.md 6/C11',
        'rule': 'one scenario per (tree, operation); evaluations = fault plans executed; non-trivial = the tree has a decision (so at least one LP call)',
        'assumptions': ['the LP tap hook is the only source of faults; solver answers are otherwise real'],
    },
    'C04': {
        'stages': c04_stages,
        'level_text': 'All operation histories of depth <= 2 (3) over {eliminate, reduce, neg, apply_func, compose, compose<prune>, +, -} from '
                      'all trees with <= 1 decision of the alphabet (merged by VIEW on the reached tree), plus TLC -simulate random histories '
                      'of depth 6, are explored on the L1 model with the invariant "well-formed, caches sound, step has the meaning of its '
                      'operation"; every history is replayed and TLC checks on every recorded post-state: node functions have in_dim columns, '
                      'terminals share one output dimension, decisions have 1..log2(K) rows, leaf <=> no children, links consistent, and no '
                      'operation panicked on well-formed dimension-compatible operands. Alphabets have terminal out-dim 2 and 1-row predicates, '
                      'so a decision turned into a leaf is seen as a terminal with a different output dimension.',
        'level_note': AFFTREE_NOTE,
        'design_ref': 'DESIGN.md 6/C04',
        'rule': 'one script per model transition (history prefix + operation); distinct by canonical hash; non-trivial = start tree has a decision',
        'assumptions': ['E-universe integer data; q=1', '"holds a terminal function" is decided through the common output dimension (alphabets with out-dim 2)'],
    },
    'C05': {
        'stages': c05_stages,
        'level_text': 'On the same histories and on the pruning pipelines TLC checks after every recorded step: every witness stored at a node '
                      'satisfies all closed path conditions of that node (fixed-point tolerance), and every node marked infeasible has a path '
                      'region without interior (decided by FM); inductively, so a violation is attributed to the step that introduced it. '
                      'The model carries the same cache states (inherit / LP / forward) and the invariant CacheSound.',
        'level_note': AFFTREE_NOTE + ' Witness coordinates are compared at resolution 1e-5 (coarser than the library\'s 1e-8).',
        'design_ref': 'DESIGN.md 6/C05',
        'rule': 'as C04; non-trivial = start tree has a decision',
        'assumptions': ['caches are only created through API pipelines (eliminate / compose / arithmetic), never written by hand'],
    },
    'C06': {
        'stages': c06_stages,
        'level_text': 'For every total tree of the pruning alphabets (infeasible, zero-width, zero-row and feasible paths at every position) and '
                      'the eliminate / compose / eliminate pipelines, the model checks and TLC re-checks on the recorded real result: no node below '
                      'the root with an empty closed path region, no single-branch decision below the root, a second elimination leaves the '
                      'tree (shape, indices, functions) unchanged.',
        'level_note': AFFTREE_NOTE,
        'design_ref': 'DESIGN.md 6/C06',
        'rule': 'one history script per (tree, pipeline); non-trivial = the tree has a decision',
        'assumptions': ['E-universe integer data: an empty closed region is empty by a margin far above the LP tolerance'],
    },
    'C07': {
        'stages': c07_stages,
        'level_text': 'Tree arithmetic (the composition loop with the arithmetic schemas and on-the-fly pruning) is model-checked against the '
                      'point-wise lifting LiftPieces for all operand pairs x {+,-,*,/}; every pair is replayed in all four ownership variants '
                      '(&a op &b, a op &b, a op b, &a op b) and TLC decides equality with the lifting on the recorded trees by FM (differences '
                      'tolerated only on regions with empty interior, which pruning may drop), plus evaluate() on a grid.',
        'level_note': AFFTREE_NOTE + ' Division only over alphabets without zero divisors and with exact quotients.',
        'design_ref': 'DESIGN.md 6/C07',
        'rule': 'one script per (a, b, op), four events (ownership variants) each; non-trivial = both operands contain a decision',
        'assumptions': ['E-universe integer data; q=1', '* and / are coefficient-wise as the library defines them'],
    },
    'C08': {
        'stages': c08_stages,
        'level_text': 'reduce (reverse-BFS merge of identical terminal siblings) is model-checked for function preservation, size, '
                      'idempotence and absence of mergeable pairs on all trees with <= 3 (4) decisions over terminals that differ only in bias '
                      'or one coefficient; every tree is replayed and TLC checks the same formulas plus "only uniform total subtrees '
                      'disappear" on the recorded pre/post trees.',
        'level_note': AFFTREE_NOTE,
        'design_ref': 'DESIGN.md 6/C08',
        'rule': 'one script per (tree, layout); non-trivial = the tree has at least one decision',
        'assumptions': ['E-universe integer data; q=1'],
    },
    'C13': {
        'stages': c13_stages,
        'level': 'model_checking',
        'level_text': 'The cursor state machines (spec/Traversal.tla: DfsPre, DfsEdge, Bfs with stack/queue, last_push, size bounds) are '
                      'model-checked against recursive reference traversals and the size_hint bracket on every arena reachable by '
                      'add/remove/merge with <= CAP slots, every start node and every next/skip schedule; every completed run and every arena '
                      '(metrics) is replayed on the real crate and TLC compares items, hints and metrics.',
        'level_note': 'Small scope (K in {2,3}, <= 4/5 slots; repeated skips in the K=2 instances). skip_subtree on a DfsEdge cursor before '
                      'the first item is not generated (no item returned yet). depth() is read as the number of edges of the longest root path '
                      '(pinned by the repository test test_depth).',
        'design_ref': 'DESIGN.md 6/C13',
        'rule': 'one script per completed cursor run (arena build history x kind x start x schedule) and one metrics script per arena; '
                'non-trivial = run with a skip or a start below the root, or metrics of an arena built with removals/merges',
        'assumptions': ['trees are non-empty (Tree::new + add_root)', 'mean/variance compared as exact rationals (n*mean, n(n-1)*variance)'],
    },
    'C12': {
        'stages': c12_stages,
        'level': 'model_checking',
        'level_text': 'The arena model (spec/ArenaTree.tla: slab with LIFO index reuse, six mutators, every error branch) is model-checked '
                      'exhaustively for small (K, CAP): structural invariant, error-leaves-state-unchanged and survivor action properties. '
                      'Every transition of that graph is replayed on the real Tree<i64,K> and TLC evaluates the C12 formulas on the recorded '
                      'pre/post states (invariants inductively, documented effect of successful calls modulo allocation order).',
        'level_note': 'Small scope (K in {2,3}, <= 5/6 slab slots) plus seeded random histories on <= 16 slots; trusted: TLC, the JSON state '
                      'projection of the harness (node_iter, get_root_idx, len).',
        'design_ref': 'DESIGN.md 6/C12',
        'rule': 'TLC enumerates the complete reachable graph of the arena model (all ops x all arguments, valid and invalid) for the '
                'listed (K, CAP); every generated transition is one script replayed on Tree<i64,K>; plus seeded random histories. '
                'distinct = canonical hash of the op history; non-trivial = history contains a removal/merge before the last op '
                '(index reuse, shrinking) or is a multi-step random history',
        'assumptions': ['node values are small integers (value type is irrelevant to the arena)',
                        'labels >= K and vacant parent for merge are undocumented index panics and are not generated',
                        'after a panic only the structural invariants are required'],
    },
}
