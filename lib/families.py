"""Per-property scenario families (stages) for quick and thorough tiers."""
import random

from runner import Stage


# ------------------------------------------------------------------------------------------ arena (C12)
def arena_random(seed, tier):
    """seeded random histories on up to 16 slots; every step is recorded (continuity checked by the validator)"""
    rnd = random.Random(1000 + seed)
    n_hist, n_ops = (40, 60) if tier == 'quick' else (400, 200)
    scripts = []
    for h in range(n_hist):
        k = rnd.choice([2, 3])
        ops = [{'op': 'add_root', 'p': 0, 'l': 0, 'v': rnd.randrange(5)}]
        live = 1
        for _ in range(n_ops):
            r = rnd.random()
            p = rnd.randrange(0, 18)
            l = rnd.randrange(k)
            v = rnd.randrange(5)
            if r < 0.45 and live < 16:
                ops.append({'op': 'add_child', 'p': p, 'l': l, 'v': v})
            elif r < 0.60:
                ops.append({'op': 'try_remove_child', 'p': p, 'l': l, 'v': 0})
            elif r < 0.68:
                ops.append({'op': 'remove_all_descendants', 'p': p, 'l': 0, 'v': 0})
            elif r < 0.85:
                ops.append({'op': 'merge_child', 'p': p % 8, 'l': l, 'v': 0})
            else:
                ops.append({'op': 'update_node', 'p': p, 'l': 0, 'v': v})
        scripts.append({'fam': 'arena', 'k': k, 'ops': ops, 'all': True})
    return scripts


def arena_nontrivial(s):
    # non-trivial: the history contains at least one removal or merge before the last op (index reuse / shrinking)
    ops = s['ops']
    if any(o['op'] in ('try_remove_child', 'remove_all_descendants', 'merge_child') for o in ops[:-1]) or s.get('all'):
        return {'k': s['k'], 'ops': ops}
    return None


def c12_stages(tier):
    st = [Stage('arena-k2c5', 'Trace_Arena', mc=('MC_Arena', 'MC_Arena_k2c5.cfg'), nontrivial=arena_nontrivial),
          Stage('arena-k3c4', 'Trace_Arena', mc=('MC_Arena', 'MC_Arena_k3c4.cfg'), nontrivial=arena_nontrivial),
          Stage('arena-k2c4r', 'Trace_Arena', mc=('MC_Arena', 'MC_Arena_k2c4r.cfg'), nontrivial=arena_nontrivial),
          Stage('arena-random', 'Trace_Arena', gen=arena_random, nontrivial=arena_nontrivial)]
    if tier == 'thorough':
        st += [Stage('arena-k2c6', 'Trace_Arena', mc=('MC_Arena', 'MC_Arena_k2c6.cfg'), nontrivial=arena_nontrivial, mc_workers=12),
               Stage('arena-k3c5', 'Trace_Arena', mc=('MC_Arena', 'MC_Arena_k3c5.cfg'), nontrivial=arena_nontrivial, mc_workers=12),
               Stage('arena-k2c5v2', 'Trace_Arena', mc=('MC_Arena', 'MC_Arena_k2c5v2.cfg'), nontrivial=arena_nontrivial, mc_workers=12)]
    return st


# ------------------------------------------------------------------------------------------ iterators and metrics (C13)
def iter_nontrivial(s):
    # non-trivial: a run that contains a skip, or starts below the root, or a metrics script of a tree built with removals/merges
    if s.get('kind') == 'metrics':
        return s if any(o['op'] != 'add_child' for o in s['ops'][1:]) else None
    if 's' in s.get('sched', []) or s.get('start', 0) != 0:
        return s
    return None


def c13_stages(tier):
    st = [Stage('iter-k2c4', 'Trace_Iter', mc=('MC_Iter', 'MC_Iter_k2c4.cfg'), nontrivial=iter_nontrivial),
          Stage('iter-k3c4', 'Trace_Iter', mc=('MC_Iter', 'MC_Iter_k3c4.cfg'), nontrivial=iter_nontrivial)]
    if tier == 'thorough':
        st += [Stage('iter-k2c5', 'Trace_Iter', mc=('MC_Iter', 'MC_Iter_k2c5.cfg'), nontrivial=iter_nontrivial, mc_workers=12),
               Stage('iter-k2c5d', 'Trace_Iter', mc=('MC_Iter', 'MC_Iter_k2c5d.cfg'), nontrivial=iter_nontrivial, mc_workers=12)]
    return st


NOT_APPLICABLE = {}

CHECKS = {
    'C13': {
        'stages': c13_stages,
        'level': 'model_checking',
        'level_text': 'The cursor state machines (spec/Traversal.tla: DfsPre, DfsEdge, Bfs with stack/queue, last_push, size bounds) are '
                      'model-checked against recursive reference traversals and the size_hint bracket on every arena reachable by '
                      'add/remove/merge with <= CAP slots, every start node and every next/skip schedule; every completed run and every arena '
                      '(metrics) is replayed on the real crate and TLC compares items, hints and metrics.',
        'level_note': 'Small scope (K in {2,3}, <= 4/5 slots; repeated skips in the K=2 instances). skip_subtree on a DfsEdge cursor before '
                      'the first item is not generated (no item returned yet). depth() is read as the number of edges of the longest root path '
                      '(pinned by the repository test test_depth).',
        'design_ref': 'DESIGN.md 6/C13',
        'rule': 'one script per completed cursor run (arena build history x kind x start x schedule) and one metrics script per arena; '
                'non-trivial = run with a skip or a start below the root, or metrics of an arena built with removals/merges',
        'assumptions': ['trees are non-empty (Tree::new + add_root)', 'mean/variance compared as exact rationals (n*mean, n(n-1)*variance)'],
    },
    'C12': {
        'stages': c12_stages,
        'level': 'model_checking',
        'level_text': 'The arena model (spec/ArenaTree.tla: slab with LIFO index reuse, six mutators, every error branch) is model-checked '
                      'exhaustively for small (K, CAP): structural invariant, error-leaves-state-unchanged and survivor action properties. '
                      'Every transition of that graph is replayed on the real Tree<i64,K> and TLC evaluates the C12 formulas on the recorded '
                      'pre/post states (invariants inductively, documented effect of successful calls modulo allocation order).',
        'level_note': 'Small scope (K in {2,3}, <= 5/6 slab slots) plus seeded random histories on <= 16 slots; trusted: TLC, the JSON state '
                      'projection of the harness (node_iter, get_root_idx, len).',
        'design_ref': 'DESIGN.md 6/C12',
        'rule': 'TLC enumerates the complete reachable graph of the arena model (all ops x all arguments, valid and invalid) for the '
                'listed (K, CAP); every generated transition is one script replayed on Tree<i64,K>; plus seeded random histories. '
                'distinct = canonical hash of the op history; non-trivial = history contains a removal/merge before the last op '
                '(index reuse, shrinking) or is a multi-step random history',
        'assumptions': ['node values are small integers (value type is irrelevant to the arena)',
                        'labels >= K and vacant parent for merge are undocumented index panics and are not generated',
                        'after a panic only the structural invariants are required'],
    },
}
