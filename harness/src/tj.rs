//! JSON <-> affinitree conversions (fixed point: every f64 v is logged as round(v * q) with an exactness bit)
use affinitree::linalg::affine::{AffFunc, Polytope};
use affinitree::pwl::afftree::AffTree;
use affinitree::pwl::node::NodeState;
use ndarray::{Array1, Array2};
use serde_json::{json, Value};

pub const WQ: f64 = 100000.0;

thread_local! {
    /// "forder" scenarios: every matrix handed to the library is stored column-major (same values, other memory layout)
    pub static FORDER: std::cell::Cell<bool> = const { std::cell::Cell::new(false) };
    /// "negstride" scenarios: the matrices are views with a negative stride along the column axis made owned without re-packing
    pub static NEGSTRIDE: std::cell::Cell<bool> = const { std::cell::Cell::new(false) };
    /// "mixlayout" scenarios: every second matrix column-major, the others row-major (operands of one operation differ in layout)
    pub static MIXLAYOUT: std::cell::Cell<bool> = const { std::cell::Cell::new(false) };
    pub static MIXCOUNT: std::cell::Cell<usize> = const { std::cell::Cell::new(0) };
}

/// the same matrix in column-major layout when the current script asks for it
pub fn layout(m: Array2<f64>) -> Array2<f64> {
    if NEGSTRIDE.with(|f| f.get()) {
        // store the columns mirrored, then flip the column axis: same logical matrix, negative column stride
        let mut r = m.clone();
        r.invert_axis(ndarray::Axis(1));
        let mut packed = Array2::<f64>::zeros(r.raw_dim());
        packed.assign(&r);
        packed.invert_axis(ndarray::Axis(1));
        packed
    } else if FORDER.with(|f| f.get()) || (MIXLAYOUT.with(|f| f.get()) && MIXCOUNT.with(|c| { let v = c.get(); c.set(v + 1); v % 2 == 1 })) {
        use ndarray::ShapeBuilder;
        let mut f = Array2::<f64>::zeros(m.raw_dim().f());
        f.assign(&m);
        f
    } else {
        m
    }
}

pub fn fx(v: f64, q: f64) -> (i64, bool) {
    let s = v * q;
    let r = s.round();
    if !s.is_finite() || r.abs() > 1.0e9 {
        return (0, false);
    }
    (r as i64, (s - r).abs() <= 1e-9)
}

pub fn arr1_json(a: &Array1<f64>, q: f64, ex: &mut bool) -> Value {
    Value::Array(a.iter().map(|v| { let (i, e) = fx(*v, q); *ex &= e; json!(i) }).collect())
}

pub fn mat_json(m: &Array2<f64>, q: f64, ex: &mut bool) -> Value {
    Value::Array(m.rows().into_iter().map(|r| Value::Array(r.iter().map(|v| { let (i, e) = fx(*v, q); *ex &= e; json!(i) }).collect())).collect())
}

/// {m, b, q} -> AffFunc (values divided by q)
pub fn aff_from(v: &Value) -> AffFunc {
    let q = v.get("q").and_then(|x| x.as_f64()).unwrap_or(1.0);
    let rows = v["m"].as_array().unwrap();
    let n = rows.len();
    let d = if n > 0 { rows[0].as_array().unwrap().len() } else { v.get("n").and_then(|x| x.as_u64()).unwrap_or(0) as usize };
    let mut m = Array2::<f64>::zeros((n, d));
    for (i, r) in rows.iter().enumerate() {
        for (j, x) in r.as_array().unwrap().iter().enumerate() {
            m[[i, j]] = x.as_f64().unwrap() / q;
        }
    }
    let b = Array1::from_iter(v["b"].as_array().unwrap().iter().map(|x| x.as_f64().unwrap() / q));
    AffFunc::from_mats(layout(m), b)
}

pub fn poly_from(v: &Value) -> Polytope {
    let a = aff_from(v);
    Polytope::from_mats(a.mat, a.bias)
}

pub fn aff_json(a: &AffFunc, q: f64) -> Value {
    let mut ex = true;
    let m = mat_json(&a.mat, q, &mut ex);
    let b = arr1_json(&a.bias, q, &mut ex);
    json!({"m": m, "b": b, "q": q as i64, "n": a.indim(), "ex": ex})
}

pub fn poly_json(p: &Polytope, q: f64) -> Value {
    let mut ex = true;
    let m = mat_json(&p.mat, q, &mut ex);
    let b = arr1_json(&p.bias, q, &mut ex);
    json!({"m": m, "b": b, "q": q as i64, "n": p.indim(), "ex": ex})
}

pub fn tree_json<const K: usize>(t: &AffTree<K>, q: f64) -> Value {
    let nodes: Vec<Value> = t
        .tree
        .node_iter()
        .map(|(i, nd)| {
            let mut ex = true;
            let m = mat_json(&nd.value.aff.mat, q, &mut ex);
            let b = arr1_json(&nd.value.aff.bias, q, &mut ex);
            let (st, w) = match &nd.value.state {
                NodeState::Indeterminate => ("I", vec![]),
                NodeState::Infeasible => ("X", vec![]),
                NodeState::Feasible => ("F", vec![]),
                NodeState::FeasibleWitness(ws) => ("W", ws.iter().map(|p| witness_json(p)).collect()),
            };
            let to_poly_same = { let p = nd.value.to_poly(); (p.mat == nd.value.aff.mat && p.bias == nd.value.aff.bias) as i64 };
            json!({"i": i, "p": nd.parent.map(|p| p as i64).unwrap_or(-1),
                   "ch": nd.children.iter().map(|c| c.map(|c| c as i64).unwrap_or(-1)).collect::<Vec<_>>(),
                   "leaf": nd.isleaf, "m": m, "b": b, "q": q as i64, "cols": nd.value.aff.indim(), "st": st, "w": w, "ex": ex,
                   // what the state helpers of node.rs answer: [is_feasible, is_infeasible, is_indetermined, #feasible_witnesses, to_poly() keeps the rows]
                   "hf": [nd.value.state.is_feasible() as i64, nd.value.state.is_infeasible() as i64, nd.value.state.is_indetermined() as i64,
                          nd.value.feasible_witnesses().len() as i64,
                          to_poly_same]})
        })
        .collect();
    let root = crate::guarded(|| t.tree.get_root_idx() as i64).unwrap_or(-1);
    json!({"root": root, "dim": t.in_dim(), "k": K, "len": t.len(), "nodes": nodes})
}

/// a point logged at scale WQ; "ok": false when a coordinate is too large to be represented
pub fn witness_json(p: &Array1<f64>) -> Value {
    let mut ok = true;
    let v: Vec<Value> = p.iter().map(|x| { let s = x * WQ; if !s.is_finite() || s.abs() > 2.0e8 { ok = false; json!(0) } else { json!(s.round() as i64) } }).collect();
    json!({"p": v, "ok": ok})
}

pub fn point_from(v: &Value, den: f64) -> Array1<f64> {
    Array1::from_iter(v.as_array().unwrap().iter().map(|x| x.as_f64().unwrap() / den))
}
