//! Conformance harness: replays TLC-generated scripts (and seeded random histories) on the real
//! affinitree crate and records the projected implementation state after every call as ndjson.
//! The harness only drives and records; every verdict is computed by TLC from the recorded states.
use std::fs::File;
use std::io::{BufRead, BufReader, BufWriter, Write};
use std::panic::{catch_unwind, AssertUnwindSafe};

use serde_json::{json, Value};

mod afftree;
mod arena;
mod distill;
mod format;
mod history;
mod linalg;
mod schema;
mod regions;
mod tj;
mod util;

pub type Out<'a> = &'a mut dyn FnMut(Value);

/// Runs `f`, turning a panic of the code under test into data.
pub fn guarded<T>(f: impl FnOnce() -> T) -> Result<T, String> {
    catch_unwind(AssertUnwindSafe(f)).map_err(|e| {
        if let Some(s) = e.downcast_ref::<&str>() {
            s.to_string()
        } else if let Some(s) = e.downcast_ref::<String>() {
            s.clone()
        } else {
            "panic".to_string()
        }
    })
}

fn run_script(sc: &Value, id: usize, out: Out) {
    let fam = sc["fam"].as_str().unwrap_or("");
    tj::FORDER.with(|f| f.set(sc.get("forder").and_then(|v| v.as_bool()).unwrap_or(false)));
    tj::NEGSTRIDE.with(|f| f.set(sc.get("negstride").and_then(|v| v.as_bool()).unwrap_or(false)));
    tj::MIXLAYOUT.with(|f| f.set(sc.get("mixlayout").and_then(|v| v.as_bool()).unwrap_or(false)));
    tj::MIXCOUNT.with(|c| c.set(0));
    match fam {
        "arena" => arena::run(sc, id, out),
        "iter" => arena::run_iter(sc, id, out),
        "afftree" => if sc.get("mode").and_then(|m| m.as_str()) == Some("history") { history::run(sc, id, out) } else { afftree::run(sc, id, out) },
        "regions" => regions::run(sc, id, out),
        "linalg" => linalg::run(sc, id, out),
        "schema" => distill::run_schema(sc, id, out),
        "slice" => distill::run_slice(sc, id, out),
        "distill" => distill::run_distill(sc, id, out),
        "arch" => distill::run_arch(sc, id, out),
        "npz" => distill::run_npz(sc, id, out),
        "format" => format::run(sc, id, out),
        _ => out(json!({"fam": fam, "sc": id, "ev": "unknown_family"})),
    }
}

fn main() {
    // panics of the code under test are data; CONFORM_PANIC=1 prints them for debugging
    if std::env::var("CONFORM_PANIC").is_ok() {
        std::panic::set_hook(Box::new(|info| eprintln!("PANIC: {}", info)));
    } else {
        std::panic::set_hook(Box::new(|_| {}));
    }
    let args: Vec<String> = std::env::args().collect();
    if args.len() < 2 {
        eprintln!("usage: conform replay <scripts.ndjson> <trace.ndjson>");
        std::process::exit(2);
    }
    match args[1].as_str() {
        "replay" => {
            let inp = BufReader::new(File::open(&args[2]).expect("open scripts"));
            let mut outf = BufWriter::new(File::create(&args[3]).expect("create trace"));
            let mut n_ev = 0usize;
            for (id, line) in inp.lines().enumerate() {
                let line = line.unwrap();
                if line.trim().is_empty() {
                    continue;
                }
                let sc: Value = serde_json::from_str(&line).expect("script json");
                let sid = sc.get("sc").and_then(|v| v.as_u64()).map(|v| v as usize).unwrap_or(id);
                let mut emit = |v: Value| {
                    writeln!(outf, "{}", v).unwrap();
                    n_ev += 1;
                };
                let r = guarded(|| run_script(&sc, sid, &mut emit));
                if let Err(msg) = r {
                    // a panic outside a guarded call is a harness error: record it, the runner treats it as tool error
                    writeln!(outf, "{}", json!({"fam": sc["fam"], "sc": sid, "ev": "harness_panic", "msg": msg})).unwrap();
                }
                // flushed after every script: if the code under test takes the process down, the runner can tell on which script
                outf.flush().unwrap();
            }
            outf.flush().unwrap();
            eprintln!("events={}", n_ev);
        }
        "version" => println!("conform 0.1"),
        other => {
            eprintln!("unknown command {}", other);
            std::process::exit(2);
        }
    }
}
