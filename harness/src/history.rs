//! Mode "history" of family "afftree": a sequence of operations on one AffTree<2>, one event per step,
//! with the LP calls of every step (LP tap), fault plans for the last step (C11), a second run of
//! infeasible_elimination (C06) and the fault-free result for comparison.
use affinitree::linalg::polyhedron::PolytopeStatus;
use affinitree::linalg::verif::{self, Fault, LpCall};
use affinitree::pwl::afftree::AffTree;
use serde_json::{json, Value};

use crate::afftree::{build, eval_grid};
use crate::tj::*;
use crate::{guarded, Out};

fn none() -> Value {
    json!({"none": true})
}

fn status_json(s: &PolytopeStatus) -> Value {
    match s {
        PolytopeStatus::Infeasible => json!({"st": "I", "w": {"p": [], "ok": true}}),
        PolytopeStatus::Unbounded => json!({"st": "U", "w": {"p": [], "ok": true}}),
        PolytopeStatus::Error(_) => json!({"st": "E", "w": {"p": [], "ok": true}}),
        PolytopeStatus::Optimal(w) => json!({"st": "O", "w": witness_json(w)}),
    }
}

pub fn lp_json(calls: &[LpCall], q: f64) -> Value {
    Value::Array(calls.iter().map(|c| {
        let mut ex = true;
        let m = mat_json(&c.mat, q, &mut ex);
        let b = arr1_json(&c.bias, q, &mut ex);
        let cost = arr1_json(&c.cost, q, &mut ex);
        // ill-conditioned (pscale) systems are outside the exact universe of the validator
        ex &= c.mat.iter().chain(c.bias.iter()).all(|v| v.abs() <= 1.0e4);
        json!({"m": m, "b": b, "c": cost, "q": q as i64, "n": c.mat.ncols(), "ex": ex, "real": status_json(&c.real), "ans": status_json(&c.answer),
               "fault": match c.fault { None => "", Some(Fault::Error) => "Error", Some(Fault::Unbounded) => "Unbounded",
                                        Some(Fault::Perturbed) => "Perturbed", Some(Fault::FarOff) => "FarOff" }})
    }).collect())
}

fn fault_plan(v: &Value) -> Vec<(usize, Fault)> {
    v.as_array().map(|a| a.iter().map(|e| {
        let idx = e[0].as_u64().unwrap() as usize;
        let f = match e[1].as_str().unwrap() { "Error" => Fault::Error, "Unbounded" => Fault::Unbounded, "Perturbed" => Fault::Perturbed, _ => Fault::FarOff };
        (idx, f)
    }).collect()).unwrap_or_default()
}

/// reduce() exists for binary trees only
trait Red { fn red(&mut self); }
impl Red for AffTree<2> { fn red(&mut self) { self.reduce(); } }
impl Red for AffTree<4> { fn red(&mut self) { panic!("reduce is only defined for K = 2") } }

/// applies one step; returns the right operand (if any) before and after
fn apply_step<const K: usize>(t: &mut AffTree<K>, st: &Value) -> (Value, Value, Value) where AffTree<K>: Red {
    use std::ops::*;
    let op = st["op"].as_str().unwrap();
    let q = 1.0;
    match op {
        "eliminate" => { let c = t.infeasible_elimination(); (none(), none(), json!({"nodes_checked": c.nodes_checked, "cached": c.cached_state, "skipped": c.skipped_nodes,
                         "inherited": c.parent_sol_inherited, "mirror": c.mirror_iter.len(), "lps": c.lps_solved, "lpf": c.lps_feasible, "lpi": c.lps_infeasible, "lpe": c.lps_error})) }
        "compose" | "compose_prune" => {
            let mut r: AffTree<K> = build(st["rhs"].as_array().unwrap());
            if st.get("rhs_elim").and_then(|v| v.as_bool()).unwrap_or(false) { r.infeasible_elimination(); } // the operand carries cached states
            let before = tree_json(&r, q);
            if op == "compose" { t.compose::<false, false>(&r); } else { t.compose::<true, false>(&r); }
            (before, tree_json(&r, q), none())
        }
        "apply_func" => { t.apply_func(&aff_from(&st["aff"])); (none(), none(), none()) }
        "reduce" => { t.red(); (none(), none(), none()) }
        "remove_axes" => {
            let mask = ndarray::Array1::from_iter(st["mask"].as_array().unwrap().iter().map(|v| v.as_bool().unwrap()));
            t.remove_axes(&mask).expect("remove_axes");
            (none(), none(), none())
        }
        "replace_node" => {
            // target: the first non-root node in index order
            let root = t.tree.get_root_idx();
            let target = t.tree.node_indices().find(|i| *i != root).expect("replace_node needs a non-root node");
            let new_idx = t.replace_node(target, aff_from(&st["aff"])).expect("replace_node");
            (none(), none(), json!({"target": target, "new": new_idx}))
        }
        "neg" => { let x = std::mem::replace(t, AffTree::<K>::new(1)); *t = x.neg(); (none(), none(), none()) }
        "add" | "sub" | "mul" | "div" => {
            let mut r: AffTree<K> = build(st["rhs"].as_array().unwrap());
            if st.get("rhs_elim").and_then(|v| v.as_bool()).unwrap_or(false) { r.infeasible_elimination(); }
            let before = tree_json(&r, q);
            let x = std::mem::replace(t, AffTree::<K>::new(1));
            *t = match op { "add" => x.add(&r), "sub" => x.sub(&r), "mul" => x.mul(&r), _ => x.div(&r) };
            (before, tree_json(&r, q), none())
        }
        "add_aff" | "sub_aff" => {
            let a = aff_from(&st["aff"]);
            let x = std::mem::replace(t, AffTree::<K>::new(1));
            *t = if op == "add_aff" { x.add(&a) } else { x.sub(&a) };
            (none(), none(), none())
        }
        other => panic!("unknown history op {}", other),
    }
}

pub fn run(sc: &Value, id: usize, out: Out) {
    match sc.get("k").and_then(|v| v.as_u64()).unwrap_or(2) {
        2 => {
            let t: AffTree<2> = if sc.get("schema").is_some() { crate::schema::make(&sc["schema"]) } else { build(sc["lhs"].as_array().unwrap()) };
            run_k::<2>(t, sc, id, out)
        }
        4 => run_k::<4>(build(sc["lhs"].as_array().unwrap()), sc, id, out),
        k => panic!("unsupported K {}", k),
    }
}

fn run_k<const K: usize>(mut t: AffTree<K>, sc: &Value, id: usize, out: Out) where AffTree<K>: Red {
    let q = 1.0;
    let exps = crate::afftree::apply_pscale(&mut t, sc.get("pscale").and_then(|v| v.as_str()).unwrap_or(""));
    let tree_json = |t: &AffTree<K>, q: f64| crate::afftree::tree_json_ps(t, q, &exps);
    let steps = sc["steps"].as_array().cloned().unwrap_or_default();
    let faults = fault_plan(sc.get("faults").unwrap_or(&Value::Null));
    let n = steps.len();
    let sweep = sc.get("faultsweep").and_then(|v| v.as_u64()).unwrap_or(0) as usize; // max size of the fault position subsets
    let mut pre = tree_json(&t, q);
    let record_all = sc.get("all").and_then(|v| v.as_bool()).unwrap_or(true);
    for (j, st) in steps.iter().enumerate() {
        let last = j + 1 == n;
        let op = st["op"].as_str().unwrap_or("");
        if last && sweep > 0 {
            fault_sweep(&t, st, &pre, sweep, id, j, out);
            return;
        }
        let plan = if last { faults.clone() } else { Vec::new() };
        let before = t.clone();
        verif::start(plan.clone());
        let r = guarded(|| apply_step(&mut t, st));
        let calls = verif::stop();
        let mut ev = json!({"fam": "afftree", "sc": id, "step": j, "first": j == 0 || !record_all, "k": K, "q": 1, "mode": "history", "op": op, "variant": "",
                            "pre": pre.clone(), "aff": st.get("aff").cloned().unwrap_or(none()), "mask": st.get("mask").cloned().unwrap_or(json!([])),
                            "exp": if last { sc.get("exp").cloned().unwrap_or(none()) } else { none() },
                            "faulty": !plan.is_empty(), "lp": lp_json(&calls, q), "last": last});
        match r {
            Ok((rhs_b, rhs_a, perf)) => {
                let post = tree_json(&t, q);
                ev["res"] = json!("ok");
                ev["rhs"] = rhs_b;
                ev["rhs_after"] = rhs_a;
                ev["perf"] = perf;
                ev["grid"] = eval_grid(&t, q, 2, 4);
                ev["post"] = post.clone();
                // second run of the elimination on a copy (idempotence, C06)
                ev["second"] = if op == "eliminate" {
                    let mut t2 = t.clone();
                    match guarded(|| { let c = t2.infeasible_elimination(); (c.lps_solved, c.cached_state) }) {
                        Ok((lps, cached)) => json!({"res": "ok", "post": tree_json(&t2, q), "lps": lps, "cached": cached}),
                        Err(_) => json!({"res": "panic", "post": none(), "lps": 0, "cached": 0}),
                    }
                } else { none() };
                // the same step without faults, for "only less pruning" (C11)
                ev["nofault"] = if !plan.is_empty() {
                    let mut t3 = before.clone();
                    match guarded(|| { apply_step(&mut t3, st); }) { Ok(_) => json!({"res": "ok", "post": tree_json(&t3, q)}), Err(_) => json!({"res": "panic", "post": none()}) }
                } else { none() };
                pre = post;
            }
            Err(_) => {
                ev["res"] = json!("panic");
                ev["rhs"] = none(); ev["rhs_after"] = none(); ev["perf"] = none(); ev["grid"] = none(); ev["post"] = none();
                ev["second"] = none(); ev["nofault"] = none();
                if record_all || last { out(ev); }
                return; // the tree may be in an arbitrary state after a panic: end of this history
            }
        }
        if record_all || last { out(ev); }
    }
}

/// C11: runs the step fault-free to learn the number N of LP calls, then once per fault plan over all subsets of
/// call positions of size <= max_subset and all fault kinds (capped), one event per plan.
fn fault_sweep<const K: usize>(t0: &AffTree<K>, st: &Value, pre: &Value, max_subset: usize, id: usize, step: usize, out: Out) where AffTree<K>: Red {
    let q = 1.0;
    let op = st["op"].as_str().unwrap_or("");
    let mut base = t0.clone();
    verif::start(Vec::new());
    let r0 = guarded(|| apply_step(&mut base, st));
    let calls0 = verif::stop();
    if r0.is_err() {
        return; // the fault-free step panics: reported by the ordinary history scripts
    }
    let nofault = tree_json(&base, q);
    let n = calls0.len();
    let kinds = [Fault::Error, Fault::Unbounded, Fault::Perturbed, Fault::FarOff];
    let mut plans: Vec<Vec<(usize, Fault)>> = Vec::new();
    for i in 0..n {
        for k in kinds { plans.push(vec![(i, k)]); }
    }
    // two faults in a row where the second one hits whatever LP call follows a bad witness (a retry, the sibling, ...)
    for i in 0..n {
        for k in kinds { plans.push(vec![(i, k), (i + 1, Fault::Error)]); }
    }
    if max_subset >= 2 {
        for i in 0..n { for j in (i + 1)..n { for k1 in kinds { for k2 in kinds { plans.push(vec![(i, k1), (j, k2)]); } } } }
    }
    if max_subset >= 3 {
        // all positions at once, one kind
        for k in kinds { plans.push((0..n).map(|i| (i, k)).collect()); }
    }
    let cap = 400;
    let stride = if plans.len() > cap { plans.len() / cap + 1 } else { 1 };
    for (pi, plan) in plans.iter().enumerate() {
        if pi % stride != 0 { continue; }
        let mut t = t0.clone();
        verif::start(plan.clone());
        let r = guarded(|| apply_step(&mut t, st));
        let calls = verif::stop();
        let mut ev = json!({"fam": "afftree", "sc": id, "step": step, "first": true, "k": K, "q": 1, "mode": "history", "op": op, "variant": "",
                            "pre": pre.clone(), "aff": st.get("aff").cloned().unwrap_or(none()), "exp": none(), "faulty": true,
                            "plan": plan.iter().map(|(i, f)| json!([i, format!("{:?}", f)])).collect::<Vec<_>>(),
                            "lp": lp_json(&calls, q), "last": true, "n_lp_faultfree": n,
                            "nofault": {"res": "ok", "post": nofault.clone()}, "second": none(), "perf": none()});
        match r {
            Ok((rhs_b, rhs_a, _)) => {
                ev["res"] = json!("ok"); ev["rhs"] = rhs_b; ev["rhs_after"] = rhs_a; ev["grid"] = none(); ev["post"] = tree_json(&t, q);
            }
            Err(_) => {
                ev["res"] = json!("panic"); ev["rhs"] = none(); ev["rhs_after"] = none(); ev["grid"] = none(); ev["post"] = none();
            }
        }
        out(ev);
    }
}
