//! Family "format" (C19): renders affine functions, polytopes and trees with the crate's Display / Dot
//! implementations and lexes the text into tokens. Only the lexer is trusted; all comparisons are made by TLC.
use std::ops::Bound;

use affinitree::linalg::affine::{AffFunc, Polytope};
use affinitree::linalg::impl_affineformat::FormatOptions;
use affinitree::pwl::afftree::AffTree;
use affinitree::pwl::dot::Dot;
use ndarray::{Array1, Array2};
use serde_json::{json, Value};

use crate::tj::*;
use crate::util::us;
use crate::{guarded, Out};

/// tokens of one line of write_poly / write_func output
pub fn lex_line(line: &str) -> Vec<Value> {
    line.split_whitespace().map(|w| {
        let mut chars = w.chars();
        let first = chars.next().unwrap();
        let rest: String = chars.collect();
        match w {
            "≤" => json!({"t": "leq"}),
            "<=" => json!({"t": "leq"}),
            "⊤" => json!({"t": "top"}),
            "⊥" => json!({"t": "bot"}),
            "⋯" => json!({"t": "ell"}),
            "⋮" => json!({"t": "vell"}),
            _ if first == '$' && rest.chars().all(|c| c.is_ascii_digit()) && !rest.is_empty() => json!({"t": "var", "idx": rest.parse::<i64>().unwrap()}),
            _ if (first == '+' || first == '−' || first == '-') && !rest.is_empty() && rest.chars().all(|c| c.is_ascii_digit() || c == '.') && rest.matches('.').count() <= 1 => {
                let (ip, fp) = match rest.split_once('.') { Some((a, b)) => (a.to_string(), b.to_string()), None => (rest.clone(), String::new()) };
                let digits = format!("{}{}", ip, fp);
                match digits.parse::<i64>() {
                    Ok(m) if digits.len() <= 15 => json!({"t": "num", "neg": first != '+', "mag": m, "dec": fp.len()}),
                    _ => json!({"t": "big", "text": w}),
                }
            }
            _ => json!({"t": "other", "text": w}),
        }
    }).collect()
}

fn lex_block(text: &str) -> Value {
    Value::Array(text.lines().map(|l| Value::Array(lex_line(l))).collect())
}

fn bound_of(v: &Value) -> Bound<i32> {
    match v["k"].as_str().unwrap() { "inc" => Bound::Included(v["v"].as_i64().unwrap() as i32), "exc" => Bound::Excluded(v["v"].as_i64().unwrap() as i32), _ => Bound::Unbounded }
}

fn options_of(o: &Value) -> FormatOptions {
    FormatOptions {
        sort_coefficients: us(&o["sort"]),
        simplify_zero: o["simplify_zero"].as_bool().unwrap(),
        simplify_tautologies: o["simplify_taut"].as_bool().unwrap(),
        normalize: o["normalize"].as_bool().unwrap(),
        skip_axes_n: 0,
        skip_axes: (bound_of(&o["axes_lo"]), bound_of(&o["axes_hi"])),
        skip_rows_n: 0,
        skip_rows: (bound_of(&o["rows_lo"]), bound_of(&o["rows_hi"])),
    }
}

/// values are given as [n, neg0]: n/den, or -0.0 when n = 0 and neg0
fn val(v: &Value, den: f64) -> f64 {
    let n = v[0].as_f64().unwrap();
    if n == 0.0 && v[1].as_bool().unwrap_or(false) { -0.0 } else { n / den }
}

pub fn run(sc: &Value, id: usize, out: Out) {
    let kind = sc["kind"].as_str().unwrap();
    match kind {
        "rows" => {
            let den = sc["den"].as_f64().unwrap() * if sc.get("tiny").and_then(|v| v.as_bool()).unwrap_or(false) { 1e17 } else { 1.0 };
            let rows = sc["rows"].as_array().unwrap();
            let n = rows.len();
            let d = rows[0].as_array().unwrap().len();
            let mut m = Array2::<f64>::zeros((n, d));
            for (i, r) in rows.iter().enumerate() { for (j, x) in r.as_array().unwrap().iter().enumerate() { m[[i, j]] = val(x, den); } }
            let m = crate::tj::layout(m);
            let b = Array1::from_iter(sc["bias"].as_array().unwrap().iter().map(|x| val(x, den)));
            let opt = options_of(&sc["options"]);
            let prec = us(&sc["prec"]);
            let as_poly = sc["as"].as_str().unwrap() == "poly";
            let text = guarded(|| {
                if as_poly { format!("{:.*}", prec, Polytope::from_mats(m.clone(), b.clone()).display_with(opt.clone())) }
                else { format!("{:.*}", prec, AffFunc::from_mats(m.clone(), b.clone()).display_with(opt.clone())) }
            });
            match text {
                Ok(t) => out(json!({"fam": "format", "sc": id, "first": true, "kind": kind, "script": sc, "res": "ok", "lines": lex_block(&t), "text": t})),
                Err(_) => out(json!({"fam": "format", "sc": id, "first": true, "kind": kind, "script": sc, "res": "panic", "lines": [], "text": ""})),
            }
        }
        "tree" if sc.get("k").and_then(|v| v.as_u64()).unwrap_or(2) == 4 => tree_k::<4>(sc, id, out),
        "tree" => tree_k::<2>(sc, id, out),
        other => panic!("unknown format kind {}", other),
    }
}

/// DOT export exists for binary trees only
trait DotStr { fn dot_str(&self) -> Option<String>; }
impl DotStr for AffTree<2> { fn dot_str(&self) -> Option<String> { Some(format!("{}", Dot::from(self))) } }
impl DotStr for AffTree<4> { fn dot_str(&self) -> Option<String> { None } }

fn tree_k<const K: usize>(sc: &Value, id: usize, out: Out) where AffTree<K>: DotStr {
    let kind = "tree";
    {
        {
            let mut t: AffTree<K> = crate::afftree::build(sc["lhs"].as_array().unwrap());
            // "elim" scenarios: rendered after an infeasible_elimination (nodes carry cached states; infeasible last children are kept)
            if sc.get("elim").and_then(|v| v.as_bool()).unwrap_or(false) {
                if guarded(|| { t.infeasible_elimination(); }).is_err() { return; }
            }
            let tj = tree_json(&t, 1.0);
            let nodot = t.dot_str().is_none();
            let dot = guarded(|| t.dot_str().unwrap_or_default());
            let disp = guarded(|| format!("{}", &t));
            // DOT: node statements  n<idx> [label="<lines>", <attr>];   edge statements  n<a> -> n<b> [label=<l>, <attr>];
            let mut nodes: Vec<Value> = Vec::new();
            let mut edges: Vec<Value> = Vec::new();
            let mut other: Vec<Value> = Vec::new();
            if let Ok(d) = &dot {
                // labels may span several lines: split statements at ";\n"
                for stmt in d.split(";\n") {
                    let s = stmt.trim();
                    if s.is_empty() || s == "}" { continue; }
                    if let Some((a, rest)) = s.split_once(" -> ") {
                        if a.starts_with('n') {
                            let (b, attrs) = rest.split_once(' ').unwrap_or((rest, ""));
                            let label = attrs.split("label=").nth(1).and_then(|x| x.split(',').next()).unwrap_or("?").trim().to_string();
                            edges.push(json!({"src": a[1..].parse::<i64>().unwrap_or(-1), "dst": b[1..].parse::<i64>().unwrap_or(-1), "label": label.parse::<i64>().unwrap_or(-1)}));
                            continue;
                        }
                    }
                    if s.starts_with('n') && s.contains("[label=\"") {
                        let idx = s[1..].split(' ').next().unwrap().parse::<i64>().unwrap_or(-1);
                        let lab = s.split_once("[label=\"").unwrap().1;
                        let lab = lab.rsplit_once("\",").map(|x| x.0).unwrap_or(lab);
                        nodes.push(json!({"idx": idx, "lines": lex_block(lab)}));
                        continue;
                    }
                    other.push(json!(s));
                }
            }
            // Display: "[  i|T] <first line of function>" further lines of the function, "children: l->i, l->i"
            let mut dnodes: Vec<Value> = Vec::new();
            if let Ok(d) = &disp {
                let mut cur: Option<(i64, String, Vec<String>, Vec<Value>)> = None;
                for line in d.lines().skip(1) {
                    if line.starts_with('[') && line.contains('|') && line.contains(']') {
                        if let Some((i, k, ls, ch)) = cur.take() { dnodes.push(json!({"idx": i, "kind": k, "lines": lex_block(&ls.join("\n")), "children": ch})); }
                        let inner = &line[1..line.find(']').unwrap()];
                        let (i, k) = inner.split_once('|').unwrap();
                        cur = Some((i.trim().parse::<i64>().unwrap_or(-1), k.to_string(), vec![line[line.find(']').unwrap() + 1..].to_string()], vec![]));
                    } else if let Some(rest) = line.strip_prefix("children: ") {
                        if let Some(c) = cur.as_mut() {
                            for part in rest.split(", ") {
                                if let Some((l, i)) = part.split_once("->") { c.3.push(json!([l.trim().parse::<i64>().unwrap_or(-1), i.trim().parse::<i64>().unwrap_or(-1)])); }
                            }
                        }
                    } else if let Some(c) = cur.as_mut() { c.2.push(line.to_string()); }
                }
                if let Some((i, k, ls, ch)) = cur.take() { dnodes.push(json!({"idx": i, "kind": k, "lines": lex_block(&ls.join("\n")), "children": ch})); }
            }
            out(json!({"fam": "format", "sc": id, "first": true, "kind": kind, "res": if dot.is_ok() && disp.is_ok() { "ok" } else { "panic" }, "tree": tj, "nodot": nodot,
                       "dot_nodes": nodes, "dot_edges": edges, "dot_other": other, "disp_nodes": dnodes,
                       "disp_header": disp.as_ref().ok().and_then(|d| d.lines().next().map(|s| s.to_string())).unwrap_or_default()}));
        }
    }
}
