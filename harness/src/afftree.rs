//! Family "afftree": operations on AffTree<K> (C02-C09, C11).
use affinitree::linalg::affine::AffFunc;
use affinitree::pwl::afftree::AffTree;
use serde_json::{json, Value};

use crate::tj::*;
use crate::util::us;
use crate::{guarded, Out};

/// builds a tree from a list of ops {op: from_aff|add_child|remove_child, p, l, a}
pub fn build<const K: usize>(ops: &[Value]) -> AffTree<K> {
    let mut t: Option<AffTree<K>> = None;
    for o in ops {
        match o["op"].as_str().unwrap() {
            "from_aff" => t = Some(AffTree::<K>::from_aff(aff_from(&o["a"]))),
            "add_child" => {
                t.as_mut().unwrap().add_child_node(us(&o["p"]), us(&o["l"]), aff_from(&o["a"])).expect("script add_child");
            }
            "remove_child" => {
                t.as_mut().unwrap().tree.remove_child(us(&o["p"]), us(&o["l"]));
            }
            "remove_desc" => {
                t.as_mut().unwrap().tree.remove_all_descendants(us(&o["p"])).expect("script remove_desc");
            }
            other => panic!("unknown build op {}", other),
        }
    }
    t.expect("empty build script")
}

/// "pscale" scenarios: after the build every decision predicate (row and bias) is multiplied by an exact power of two,
/// which leaves all half-spaces unchanged but makes the numbers ill-conditioned ("alt20": 2^20 for odd node indices) or
/// tiny ("tiny60": 2^-60 for every decision). Returns the exponent per node index; recorded trees are scaled back exactly.
pub fn apply_pscale<const K: usize>(t: &mut AffTree<K>, mode: &str) -> std::collections::HashMap<usize, i32> {
    let mut exps = std::collections::HashMap::new();
    let idxs: Vec<usize> = t.tree.decision_indices().collect();
    for i in idxs {
        let e: i32 = match mode { "alt20" => if i % 2 == 1 { 20 } else { 0 }, "tiny60" => -60, _ => 0 };
        if e != 0 {
            let f = 2f64.powi(e);
            let nd = t.tree.node_value_mut(i).unwrap();
            nd.aff.mat.mapv_inplace(|x| x * f);
            nd.aff.bias.mapv_inplace(|x| x * f);
            exps.insert(i, e);
        }
    }
    exps
}

/// tree_json with the decisions of a pscale scenario scaled back (exact: powers of two)
pub fn tree_json_ps<const K: usize>(t: &AffTree<K>, q: f64, exps: &std::collections::HashMap<usize, i32>) -> Value {
    if exps.is_empty() { return tree_json(t, q); }
    let mut c = t.clone();
    for (i, e) in exps {
        if let Ok(nd) = c.tree.node_value_mut(*i) {
            let f = 2f64.powi(-*e);
            nd.aff.mat.mapv_inplace(|x| x * f);
            nd.aff.bias.mapv_inplace(|x| x * f);
        }
    }
    tree_json(&c, q)
}

/// grid of points: integers -r..r in every coordinate, scaled by den (so the points are k/den)
pub fn grid(dim: usize, r: i64) -> Vec<Vec<i64>> {
    let mut pts: Vec<Vec<i64>> = vec![vec![]];
    for _ in 0..dim {
        let mut nxt = Vec::new();
        for p in &pts {
            for v in -r..=r {
                let mut p2 = p.clone();
                p2.push(v);
                nxt.push(p2);
            }
        }
        pts = nxt;
    }
    pts
}

/// evaluates the tree on the grid with the implementation's own evaluate(); values scaled by q * den
pub fn eval_grid<const K: usize>(t: &AffTree<K>, q: f64, den: i64, r: i64) -> Value {
    let pts = grid(t.in_dim(), r);
    let vals: Vec<Value> = pts
        .iter()
        .map(|p| {
            let x = ndarray::Array1::from_iter(p.iter().map(|v| *v as f64 / den as f64));
            match guarded(|| t.evaluate(&x)) {
                Ok(Some(y)) => {
                    let mut ex = true;
                    let v = arr1_json(&y, q * den as f64, &mut ex);
                    json!({"x": p, "d": 1, "v": v, "ex": ex})
                }
                Ok(None) => json!({"x": p, "d": 0, "v": [], "ex": true}),
                Err(_) => json!({"x": p, "d": 2, "v": [], "ex": true}),
            }
        })
        .collect();
    json!({"den": den, "vals": vals})
}

pub fn none() -> Value {
    json!({"none": true})
}

fn run_k<const K: usize>(sc: &Value, id: usize, out: Out) {
    let q = sc.get("q").and_then(|v| v.as_f64()).unwrap_or(1.0);
    let lhs_ops = sc["lhs"].as_array().unwrap();
    let rhs_ops = sc["rhs"].as_array().cloned().unwrap_or_default();
    let op = sc["op"].as_str().unwrap_or("");
    let exp = sc.get("exp").cloned().unwrap_or(none());
    let exp = if op.ends_with("_aff") { none() } else { exp };
    let rhs_ops = if op == "apply_func" { Vec::new() } else { rhs_ops };
    let lhs: AffTree<K> = build(lhs_ops);
    let rhs: Option<AffTree<K>> = if rhs_ops.is_empty() { None } else { Some(build(&rhs_ops)) };
    let pre = tree_json(&lhs, q);
    let rhs_pre = rhs.as_ref().map(|r| tree_json(r, q)).unwrap_or(none());
    let qq = match op { "compose" | "compose_prune" | "mul" | "mul_aff" | "apply_func" => q * q, _ => q };
    let mut emit = |variant: &str, res: Result<(AffTree<K>, Option<AffTree<K>>), String>| {
        let (post, rhs_after, grid, r) = match &res {
            Ok((t, r2)) => (tree_json(t, qq), r2.as_ref().map(|r| tree_json(r, q)).unwrap_or(none()), eval_grid(t, qq, 2, 4), "ok"),
            Err(_) => (none(), none(), none(), "panic"),
        };
        out(json!({"fam": "afftree", "sc": id, "first": true, "k": K, "q": q as i64, "mode": sc["mode"], "op": op, "variant": variant,
                   "pre": pre, "rhs": rhs_pre, "post": post, "rhs_after": rhs_after, "res": r, "grid": grid, "aff": sc.get("aff").cloned().unwrap_or(none()),
                   "exp": if variant == "" || variant == "or" { exp.clone() } else { none() }}));
    };
    match op {
        "compose" => {
            let r = rhs.clone().unwrap();
            emit("", guarded(|| { let mut t = lhs.clone(); t.compose::<false, false>(&r); (t, Some(r)) }));
            // the VERBOSE variant of the same composition (progress reporting only: the tree must be the same), on a sample
            if id % 4 == 0 {
                let r = rhs.clone().unwrap();
                emit("v", guarded(|| { let mut t = lhs.clone(); t.compose::<false, true>(&r); (t, Some(r)) }));
            }
        }
        "compose_prune" => {
            let r = rhs.clone().unwrap();
            emit("", guarded(|| { let mut t = lhs.clone(); t.compose::<true, false>(&r); (t, Some(r)) }));
            if id % 4 == 0 {
                let r = rhs.clone().unwrap();
                emit("v", guarded(|| { let mut t = lhs.clone(); t.compose::<true, true>(&r); (t, Some(r)) }));
            }
        }
        "apply_func" => {
            let a = aff_from(&sc["aff"]);
            emit("", guarded(|| { let mut t = lhs.clone(); t.apply_func(&a); (t, None) }));
        }
        "add" | "sub" | "mul" | "div" => {
            // all four ownership variants in one event; "or" (a op &b) is the reference, the others must give the same tree
            let r = rhs.clone().unwrap();
            macro_rules! variants {
                ($m:ident) => {{
                    use std::ops::*;
                    let v_or = guarded(|| (lhs.clone().$m(&r), r.clone()));
                    let v_rr = guarded(|| (&lhs).$m(&r));
                    let v_oo = guarded(|| lhs.clone().$m(r.clone()));
                    let v_ro = guarded(|| (&lhs).$m(r.clone()));
                    let tj = |x: &Result<AffTree<K>, String>| match x { Ok(t) => tree_json(t, qq), Err(_) => none() };
                    let others = json!({"rr": tj(&v_rr), "oo": tj(&v_oo), "ro": tj(&v_ro)});
                    let (post, rhs_after, grid, res) = match &v_or {
                        Ok((t, r2)) => (tree_json(t, qq), tree_json(r2, q), eval_grid(t, qq, 2, 4), "ok"),
                        Err(_) => (none(), none(), none(), "panic"),
                    };
                    out(json!({"fam": "afftree", "sc": id, "first": true, "k": K, "q": q as i64, "mode": sc["mode"], "op": op, "variant": "or",
                               "pre": pre, "rhs": rhs_pre, "post": post, "rhs_after": rhs_after, "res": res, "grid": grid,
                               "others": others, "exp": exp.clone()}));
                }};
            }
            match op { "add" => variants!(add), "sub" => variants!(sub), "mul" => variants!(mul), _ => variants!(div) }
        }
        "neg" => {
            use std::ops::Neg;
            emit("", guarded(|| (lhs.clone().neg(), None)));
        }
        "add_aff" | "sub_aff" | "mul_aff" | "div_aff" => {
            // mixed forms with a plain affine function on either side (the affine function is sc.aff)
            let a: AffFunc = aff_from(&sc["aff"]);
            macro_rules! variants {
                ($m:ident) => {{
                    use std::ops::*;
                    emit("ta", guarded(|| (lhs.clone().$m(a.clone()), None)));
                    emit("tra", guarded(|| (lhs.clone().$m(&a), None)));
                    emit("at", guarded(|| (a.clone().$m(lhs.clone()), None)));
                    emit("rat", guarded(|| ((&a).$m(lhs.clone()), None)));
                }};
            }
            match op { "add_aff" => variants!(add), "sub_aff" => variants!(sub), "mul_aff" => variants!(mul), _ => variants!(div) }
        }
        other => panic!("unknown afftree op {}", other),
    }
}

fn run_k2(sc: &Value, id: usize, out: Out) {
    let op = sc["op"].as_str().unwrap_or("");
    match op {
        "reduce" => {
            let q = sc.get("q").and_then(|v| v.as_f64()).unwrap_or(1.0);
            let lhs: AffTree<2> = build(sc["lhs"].as_array().unwrap());
            let pre = tree_json(&lhs, q);
            let r = guarded(|| { let mut t = lhs.clone(); t.reduce(); let mut t2 = t.clone(); t2.reduce(); (t, t2) });
            let (post, post2, grid, res) = match &r {
                Ok((t, t2)) => (tree_json(t, q), tree_json(t2, q), eval_grid(t, q, 2, 4), "ok"),
                Err(_) => (none(), none(), none(), "panic"),
            };
            out(json!({"fam": "afftree", "sc": id, "first": true, "k": 2, "q": q as i64, "mode": sc["mode"], "op": op, "variant": "",
                       "pre": pre, "rhs": none(), "post": post, "rhs_after": none(), "post2": post2, "res": res, "grid": grid,
                       "exp": sc.get("exp").cloned().unwrap_or(none())}));
        }
        _ => run_k::<2>(sc, id, out),
    }
}

pub fn run(sc: &Value, id: usize, out: Out) {
    match us(&sc["k"]) {
        2 => run_k2(sc, id, out),
        4 => run_k::<4>(sc, id, out),
        k => panic!("unsupported K {}", k),
    }
}
