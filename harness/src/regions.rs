//! Family "regions" (C09, and PolyhedraIter for C13): polyhedra() streams under skip schedules,
//! find_terminal on a grid, path_to_node.
use affinitree::pwl::afftree::AffTree;
use serde_json::{json, Value};

use crate::afftree::{build, grid};
use crate::tj::*;
use crate::{guarded, Out};

fn polys_json(ps: &[affinitree::linalg::affine::Polytope], q: f64) -> Value {
    // one entry per path edge: the rows of that half-space polytope
    Value::Array(ps.iter().map(|p| poly_json(p, q)).collect())
}

pub fn run(sc: &Value, id: usize, out: Out) {
    match sc.get("k").and_then(|v| v.as_u64()).unwrap_or(2) {
        2 => run_k::<2>(sc, id, out),
        4 => run_k::<4>(sc, id, out),
        k => panic!("unsupported K {}", k),
    }
}

fn run_k<const K: usize>(sc: &Value, id: usize, out: Out) {
    let q = sc.get("q").and_then(|v| v.as_f64()).unwrap_or(1.0);
    let mut t: AffTree<K> = build(sc["lhs"].as_array().unwrap());
    // "elim" scenarios: the tree is observed after an infeasible_elimination (nodes carry cached feasibility states, branches may be gone)
    if sc.get("elim").and_then(|v| v.as_bool()).unwrap_or(false) {
        if guarded(|| { t.infeasible_elimination(); }).is_err() { return; }
    }
    // "upd" scenarios: a complete traversal, then the root predicate is exchanged with update_node (threshold + 1), then the
    // tree is observed: anything memoised by the first traversal must not leak into the second
    if sc.get("upd").and_then(|v| v.as_bool()).unwrap_or(false) && t.tree.len() > 1 {
        let r = guarded(|| {
            let mut it = t.polyhedra();
            while it.next(&t.tree).is_some() {}
            let _ = t.polyhedra_iter().count();
            let root = t.tree.get_root_idx();
            let mut a = t.tree.node_value(root).unwrap().aff.clone();
            a.bias.mapv_inplace(|b| b + 1.0);
            t.update_node(root, a).expect("update_node");
        });
        if r.is_err() { return; }
    }
    let exps = crate::afftree::apply_pscale(&mut t, sc.get("pscale").and_then(|v| v.as_str()).unwrap_or(""));
    let tj = crate::afftree::tree_json_ps(&t, q, &exps);
    // reported path polytopes are scaled back with the exponent of the decision they come from (path edge j belongs to the j-th node of the path)
    let unscale = |idx: usize, ps: &[affinitree::linalg::affine::Polytope]| -> Vec<affinitree::linalg::affine::Polytope> {
        if exps.is_empty() { return ps.to_vec(); }
        let path = t.tree.path_to_node(idx).unwrap_or_default();
        ps.iter().enumerate().map(|(j, p)| {
            let e = path.get(j).and_then(|(n, _)| exps.get(n)).cloned().unwrap_or(0);
            let f = 2f64.powi(-e);
            affinitree::linalg::affine::Polytope::from_mats(&p.mat * f, &p.bias * f)
        }).collect()
    };
    // schedule: list of "n" / "s" as for the tree cursors; run until the schedule ends, then drain with next()
    let sched: Vec<String> = sc["sched"].as_array().map(|a| a.iter().map(|v| v.as_str().unwrap_or("n").to_string()).collect()).unwrap_or_default();
    // --- PolyhedraGen (polyhedra())
    let gen_run = guarded(|| {
        let mut steps: Vec<Value> = Vec::new();
        let mut it = t.polyhedra();
        let mut k = 0usize;
        loop {
            let call = if k < sched.len() { sched[k].as_str() } else { "n" };
            k += 1;
            if call == "s" {
                it.skip_subtree();
                steps.push(json!({"call": "s", "item": {"none": true}, "polys": []}));
                continue;
            }
            match it.next(&t.tree) {
                Some((d, ps)) => steps.push(json!({"call": "n", "item": {"none": false, "depth": d.depth, "idx": d.index, "rem": d.n_remaining},
                                                   "polys": polys_json(&unscale(d.index, ps), q)})),
                None => {
                    steps.push(json!({"call": "n", "item": {"none": true}, "polys": []}));
                    break;
                }
            }
            if k > 10_000 { break; }
        }
        steps
    });
    // --- PolyhedraGen::with_root from every non-root node (no skips): items and path conditions relative to the start node
    let subs: Vec<Value> = t.tree.node_indices().filter(|i| *i != t.tree.get_root_idx()).map(|start| {
        let skip_edges = t.tree.path_to_node(start).map(|p| p.len()).unwrap_or(0);
        let r = guarded(|| {
            let mut steps: Vec<Value> = Vec::new();
            let mut it = affinitree::pwl::iter::PolyhedraGen::with_root(&t.tree, start);
            let mut guard = 0;
            while let Some((d, ps)) = it.next(&t.tree) {
                // scale back: the j-th reported polytope belongs to the (skip_edges + j)-th edge of the node's root path
                let path = t.tree.path_to_node(d.index).unwrap_or_default();
                let ups: Vec<affinitree::linalg::affine::Polytope> = ps.iter().enumerate().map(|(j, p)| {
                    let e = path.get(skip_edges + j).and_then(|(n, _)| exps.get(n)).cloned().unwrap_or(0);
                    let f = 2f64.powi(-e);
                    affinitree::linalg::affine::Polytope::from_mats(&p.mat * f, &p.bias * f)
                }).collect();
                steps.push(json!({"call": "n", "item": {"none": false, "depth": d.depth, "idx": d.index, "rem": d.n_remaining}, "polys": polys_json(&ups, q)}));
                guard += 1;
                if guard > 10_000 { break; }
            }
            steps
        });
        match r { Ok(s) => json!({"start": start, "res": "ok", "steps": s}), Err(_) => json!({"start": start, "res": "panic", "steps": []}) }
    }).collect();
    // --- PolyhedraIter (polyhedra_iter()) with size_hint after every call
    let iter_run = guarded(|| {
        let mut steps: Vec<Value> = Vec::new();
        let mut it = t.polyhedra_iter();
        let h0 = it.size_hint();
        let mut k = 0usize;
        loop {
            let call = if k < sched.len() { sched[k].as_str() } else { "n" };
            k += 1;
            if call == "s" {
                it.skip_subtree();
                let h = it.size_hint();
                steps.push(json!({"call": "s", "res": "ok", "item": {"none": true}, "hint": [h.0, h.1.map(|x| x as i64).unwrap_or(-1)]}));
                continue;
            }
            let nx = it.next();
            let h = it.size_hint();
            match nx {
                Some((depth, idx, rem, ps)) => steps.push(json!({"call": "n", "res": "ok", "item": {"none": false, "depth": depth, "idx": idx, "rem": rem},
                    "hint": [h.0, h.1.map(|x| x as i64).unwrap_or(-1)], "npolys": ps.len()})),
                None => {
                    steps.push(json!({"call": "n", "res": "ok", "item": {"none": true}, "hint": [h.0, h.1.map(|x| x as i64).unwrap_or(-1)]}));
                    break;
                }
            }
            if k > 10_000 { break; }
        }
        json!({"hint0": [h0.0, h0.1.map(|x| x as i64).unwrap_or(-1)], "steps": steps})
    });
    // --- per decision node: the closed half-spaces of every outgoing label (edge_polytope) and evaluate_decision on the grid
    let edges: Vec<Value> = t.tree.decision_indices().map(|i| {
        let nd = t.tree.tree_node(i).unwrap();
        let e = exps.get(&i).cloned().unwrap_or(0);
        let f = 2f64.powi(-e);
        let per_label: Vec<Value> = (0..K).map(|l| match guarded(|| affinitree::pwl::iter::edge_polytope(&nd.value.aff, l)) {
            Ok(p) => poly_json(&affinitree::linalg::affine::Polytope::from_mats(&p.mat * f, &p.bias * f), q),
            Err(_) => json!({"m": [], "b": [], "q": 1, "n": -1, "ex": true}),
        }).collect();
        let decide: Vec<Value> = grid(t.in_dim(), 4).iter().map(|p| {
            let x = ndarray::Array1::from_iter(p.iter().map(|v| *v as f64 / 2.0));
            json!([p, guarded(|| t.evaluate_decision(nd, &x) as i64).unwrap_or(-1)])
        }).collect();
        json!({"i": i, "labels": per_label, "decide": decide})
    }).collect();
    // --- find_terminal / path_to_node on a grid of half-integers
    let den = 2i64;
    let pts = grid(t.in_dim(), 4);
    let finds: Vec<Value> = pts.iter().map(|p| {
        let x = ndarray::Array1::from_iter(p.iter().map(|v| *v as f64 / den as f64));
        let r = guarded(|| {
            match t.find_terminal(t.tree.get_root(), &x) {
                Some((node, labels)) => {
                    // follow the labels from the root to obtain the index, and compare with the returned reference
                    let mut idx = t.tree.get_root_idx();
                    let mut ok = true;
                    for l in &labels {
                        match t.tree.child(idx, *l) { Ok(e) => idx = e.target_idx, Err(_) => { ok = false; break; } }
                    }
                    let same = ok && std::ptr::eq(node, t.tree.tree_node(idx).unwrap());
                    let path = t.tree.path_to_node(idx).map(|p| p.iter().map(|(a, b)| json!([a, b])).collect::<Vec<_>>()).unwrap_or_default();
                    json!({"x": p, "d": 1, "labels": labels, "node": idx, "same": same, "path": path})
                }
                None => json!({"x": p, "d": 0, "labels": [], "node": -1, "same": true, "path": []}),
            }
        });
        r.unwrap_or(json!({"x": p, "d": 2, "labels": [], "node": -1, "same": false, "path": []}))
    }).collect();
    out(json!({"fam": "regions", "sc": id, "first": true, "k": K, "q": q as i64, "tree": tj, "sched": sched, "den": den,
               "gen": match gen_run { Ok(s) => json!({"res": "ok", "steps": s}), Err(_) => json!({"res": "panic", "steps": []}) },
               "iter": match iter_run { Ok(v) => json!({"res": "ok", "run": v}), Err(_) => json!({"res": "panic", "run": {"hint0": [0, -1], "steps": []}}) },
               "subs": subs, "finds": finds, "edges": edges}));
}
