//! Family "linalg" (C10, C14, C15, C16): one call (or a short pipeline of polytope transformations) per script.
use affinitree::linalg::affine::{AffFunc, PolyRepr, Polytope};
use affinitree::linalg::polyhedron::PolytopeStatus;
use ndarray::{Array1, Array2};
use serde_json::{json, Value};

use crate::afftree::grid;
use crate::tj::*;
use crate::util::us;
use crate::{guarded, Out};

/// factor of the "tiny" scenarios: coefficients below the machine epsilon
const TINY: f64 = 1e-17;

/// logs a polytope of a tiny scenario scaled back by 1/TINY (rows that are exactly zero with a bias of magnitude 1 - the canonical
/// empty / unbounded polytopes - are kept as they are)
fn poly_json_tiny(p: &Polytope, q: f64) -> Value {
    let mut m = p.mat.clone();
    let mut b = p.bias.clone();
    for (mut row, bias) in m.rows_mut().into_iter().zip(b.iter_mut()) {
        let canonical = row.iter().all(|x| *x == 0.0) && bias.abs() == 1.0;
        if !canonical { row.mapv_inplace(|x| x / TINY); *bias /= TINY; }
    }
    poly_json(&Polytope::from_mats(m, b), q)
}

fn vecf(v: &Value, q: f64) -> Array1<f64> {
    Array1::from_iter(v.as_array().unwrap().iter().map(|x| x.as_f64().unwrap() / q))
}

fn matf(v: &Value, q: f64) -> Array2<f64> {
    let rows = v.as_array().unwrap();
    let n = rows.len();
    let d = if n > 0 { rows[0].as_array().unwrap().len() } else { 0 };
    let mut m = Array2::<f64>::zeros((n, d));
    for (i, r) in rows.iter().enumerate() {
        for (j, x) in r.as_array().unwrap().iter().enumerate() {
            m[[i, j]] = x.as_f64().unwrap() / q;
        }
    }
    layout(m)
}

fn bounds(b: &Value, q: f64) -> (f64, f64) {
    // {lo, hi, loinf, hiinf}
    let lo = if b["loinf"].as_bool().unwrap_or(false) { f64::NEG_INFINITY } else { b["lo"].as_f64().unwrap() / q };
    let hi = if b["hiinf"].as_bool().unwrap_or(false) { f64::INFINITY } else { b["hi"].as_f64().unwrap() / q };
    (lo, hi)
}

/// membership of grid points (integers -r..r over den) according to the implementation's contains()
fn contains_grid(p: &Polytope, den: i64, r: i64) -> Value {
    Value::Array(grid(p.indim(), r).iter().map(|x| {
        let pt = Array1::from_iter(x.iter().map(|v| *v as f64 / den as f64));
        json!([x, guarded(|| p.contains(&pt)).unwrap_or(false)])
    }).collect())
}

/// distance_raw at every grid point and distances_raw on the matrix whose columns are the same points (both b - A x, not normalised)
fn raw_grid(p: &Polytope, den: i64, r: i64, q: f64) -> Value {
    let pts = grid(p.indim(), r);
    let single: Vec<Value> = pts.iter().map(|x| {
        let pt = Array1::from_iter(x.iter().map(|v| *v as f64 / den as f64));
        let mut ex = true;
        json!([x, guarded(|| arr1_json(&p.distance_raw(&pt), q * den as f64, &mut ex)).unwrap_or(json!([]))])
    }).collect();
    let mut m = Array2::<f64>::zeros((p.indim(), pts.len()));
    for (k, x) in pts.iter().enumerate() { for (i, v) in x.iter().enumerate() { m[[i, k]] = *v as f64 / den as f64; } }
    let multi = match guarded(|| p.distances_raw(&m)) {
        Ok(d) => json!({"res": "ok", "cols": (0..pts.len()).map(|k| { let mut ex = true; arr1_json(&d.column(k).to_owned(), q * den as f64, &mut ex) }).collect::<Vec<_>>()}),
        Err(_) => json!({"res": "panic", "cols": []}),
    };
    json!({"single": single, "multi": multi})
}

fn status_json(s: &PolytopeStatus) -> Value {
    match s {
        PolytopeStatus::Infeasible => json!({"st": "I", "w": {"p": [], "ok": true}}),
        PolytopeStatus::Unbounded => json!({"st": "U", "w": {"p": [], "ok": true}}),
        PolytopeStatus::Error(_) => json!({"st": "E", "w": {"p": [], "ok": true}}),
        PolytopeStatus::Optimal(w) => json!({"st": "O", "w": witness_json(w)}),
    }
}

fn fnum(v: f64) -> Value {
    // a float logged at scale WQ with flags for +-inf / nan
    if v.is_nan() { json!({"v": 0, "k": "nan"}) }
    else if v == f64::INFINITY { json!({"v": 0, "k": "inf"}) }
    else if v == f64::NEG_INFINITY { json!({"v": 0, "k": "-inf"}) }
    else if (v * WQ).abs() > 2.0e9 { json!({"v": 0, "k": "big"}) }
    else { json!({"v": (v * WQ).round() as i64, "k": "num"}) }
}

fn repr_of(s: &str) -> PolyRepr {
    match s {
        "MatrixLeqBias" => PolyRepr::MatrixLeqBias,
        "MatrixBiasLeqZero" => PolyRepr::MatrixBiasLeqZero,
        "MatrixGeqBias" => PolyRepr::MatrixGeqBias,
        _ => PolyRepr::MatrixBiasGeqZero,
    }
}

/// one polytope transformation step; returns the new polytope
fn poly_step(p: &Polytope, st: &Value) -> Polytope {
    let q = st.get("q").and_then(|v| v.as_f64()).unwrap_or(1.0);
    match st["op"].as_str().unwrap() {
        "translate" => p.translate(&vecf(&st["d"], q)),
        "intersection" => p.intersection(&poly_from(&st["p2"])),
        "intersection_n" => {
            let mut ps = vec![p.clone()];
            for x in st["ps"].as_array().unwrap() { ps.push(poly_from(x)); }
            Polytope::intersection_n(p.indim(), &ps)
        }
        "apply_pre" => p.apply_pre(&aff_from(&st["f"])),
        "apply_post" => p.apply_post(&matf(&st["minv"], 1.0), &vecf(&st["c"], 1.0)),
        "rotate" => p.rotate(&matf(&st["r"], 1.0)),
        "remove_tautologies" => p.remove_tautologies(),
        "remove_duplicate_rows" => p.remove_duplicate_rows(),
        "remove_redundant" => p.remove_redundant_row_constraints().expect("LP error in remove_redundant_row_constraints"),
        "normalize" => p.clone().normalize(),
        "remove_zero_rows" => p.remove_zero_rows(),
        "remove_rows" => p.remove_rows(st["rows"].as_array().unwrap().iter().map(|x| x.as_u64().unwrap() as usize)),
        other => panic!("unknown poly step {}", other),
    }
}

fn poly_ctor(c: &Value) -> Polytope {
    let q = c.get("q").and_then(|v| v.as_f64()).unwrap_or(1.0);
    match c["ctor"].as_str().unwrap() {
        "rows" => {
            let mut p = poly_from(&c["p"]);
            if c.get("negzero").and_then(|v| v.as_bool()).unwrap_or(false) { p.bias.mapv_inplace(|x| if x == 0.0 { -0.0 } else { x }); }
            if c.get("tiny").and_then(|v| v.as_bool()).unwrap_or(false) { Polytope::from_mats(&p.mat * TINY, &p.bias * TINY) } else { p }
        }
        "hypercube" => Polytope::hypercube(us(&c["dim"]), c["r"].as_f64().unwrap() / q),
        "hyperrectangle" => {
            let iv: Vec<(f64, f64)> = c["bounds"].as_array().unwrap().iter().map(|b| bounds(b, q)).collect();
            Polytope::hyperrectangle(&iv)
        }
        "axis_bounds" => { let (lo, hi) = bounds(&c["bd"], q); Polytope::axis_bounds(us(&c["dim"]), us(&c["axis"]), lo, hi) }
        "unbounded" => Polytope::unbounded(us(&c["dim"])),
        "empty" => Polytope::empty(us(&c["dim"])),
        "simplex" => Polytope::simplex(us(&c["dim"])),
        "cross_polytope" => Polytope::cross_polytope(us(&c["dim"])),
        "from_normal" => Polytope::from_normal(matf(&c["normals"], 1.0), matf(&c["points"], 1.0)),
        "intersection_n_empty" => Polytope::intersection_n(us(&c["dim"]), &Vec::<Polytope>::new()),
        other => panic!("unknown ctor {}", other),
    }
}

fn aff_ctor(c: &Value) -> AffFunc {
    let q = c.get("q").and_then(|v| v.as_f64()).unwrap_or(1.0);
    let d = us(&c["dim"]);
    match c["ctor"].as_str().unwrap() {
        "identity" => AffFunc::identity(d),
        "zeros" => AffFunc::zeros(d),
        "constant" => AffFunc::constant(d, c["v"].as_f64().unwrap() / q),
        "unit" => AffFunc::unit(d, us(&c["idx"])),
        "zero_idx" => AffFunc::zero_idx(d, us(&c["idx"])),
        "sum" => AffFunc::sum(d),
        "subtraction" => AffFunc::subtraction(d, us(&c["l"]), us(&c["r"])),
        "rotation" => AffFunc::rotation(matf(&c["r"], 1.0)),
        "scaling" => AffFunc::scaling(&vecf(&c["v"], q)),
        "uniform_scaling" => AffFunc::uniform_scaling(d, c["s"].as_f64().unwrap() / q),
        "slice" => {
            let mask = c["mask"].as_array().unwrap();
            let rf = c["ref"].as_array().unwrap();
            let pt = Array1::from_iter(mask.iter().zip(rf.iter()).map(|(m, r)| if m.as_bool().unwrap() { f64::NAN } else { r.as_f64().unwrap() / q }));
            AffFunc::slice(&pt)
        }
        "translation" => AffFunc::translation(d, vecf(&c["off"], q)),
        other => panic!("unknown aff ctor {}", other),
    }
}

pub fn run(sc: &Value, id: usize, out: Out) {
    let q = sc.get("q").and_then(|v| v.as_f64()).unwrap_or(1.0);
    let kind = sc["kind"].as_str().unwrap_or("");
    let base = json!({"fam": "linalg", "sc": id, "first": true, "kind": kind, "q": q as i64, "script": sc});
    let mut emit = |mut extra: Value| {
        let mut ev = base.clone();
        for (k, v) in extra.as_object_mut().unwrap().iter() { ev[k] = v.clone(); }
        out(ev);
    };
    match kind {
        // polytope constructor followed by a pipeline of transformations; every step is recorded
        "poly" => {
            let p0 = guarded(|| poly_ctor(&sc["ctor"]));
            let mut p = match p0 {
                Ok(p) => p,
                Err(_) => { emit(json!({"step": -1, "res": "panic", "op": "ctor", "pre": {"none": true}, "post": {"none": true}, "arg": sc["ctor"], "contains": [], "dist": []})); return; }
            };
            let dist = if let Some(pt) = sc["ctor"].get("dist_at") {
                let x = vecf(pt, sc["ctor"]["dist_den"].as_f64().unwrap_or(1.0));
                guarded(|| p.distance(&x).iter().map(|v| fnum(*v)).collect::<Vec<_>>()).unwrap_or_default()
            } else { vec![] };
            let tiny = sc["ctor"].get("tiny").and_then(|v| v.as_bool()).unwrap_or(false);
            let pj = |p: &Polytope, q: f64| if tiny { poly_json_tiny(p, q) } else { poly_json(p, q) };
            let pipe = sc["pipe"].as_array().cloned().unwrap_or_default();
            let lastonly = sc.get("lastonly").and_then(|v| v.as_bool()).unwrap_or(false);
            if !lastonly || pipe.is_empty() {
                emit(json!({"step": -1, "res": "ok", "op": "ctor", "pre": {"none": true}, "post": poly_json(&p, q), "arg": sc["ctor"],
                            "contains": contains_grid(&p, 2, 3), "dist": dist, "raw": raw_grid(&p, 2, 2, q)}));
            }
            for (j, st) in pipe.iter().enumerate() {
                if lastonly && j + 1 < pipe.len() {
                    match guarded(|| poly_step(&p, st)) { Ok(p2) => { p = p2; continue; } Err(_) => return }
                }
                let pre = pj(&p, q);
                let qs = st.get("qout").and_then(|v| v.as_f64()).unwrap_or(q);
                match guarded(|| poly_step(&p, st)) {
                    Ok(p2) => {
                        emit(json!({"step": j, "res": "ok", "op": st["op"], "pre": pre, "post": pj(&p2, qs), "arg": st, "contains": contains_grid(&p2, 2, 3), "dist": []}));
                        p = p2;
                    }
                    Err(_) => { emit(json!({"step": j, "res": "panic", "op": st["op"], "pre": pre, "post": {"none": true}, "arg": st, "contains": [], "dist": []})); return; }
                }
            }
        }
        // affine function algebra: constructor or binary/unary operation
        "aff" => {
            let op = sc["op"].as_str().unwrap();
            let r = guarded(|| -> Value {
                use std::ops::*;
                match op {
                    "ctor" => {
                        let mut v = aff_json(&aff_ctor(&sc["ctor"]), q);
                        // constructors that take a matrix are called a second time with the matrix stored column-major (same values)
                        if sc["ctor"]["ctor"].as_str() == Some("rotation") {
                            let was = crate::tj::FORDER.with(|f| f.replace(true));
                            let alt = guarded(|| aff_json(&aff_ctor(&sc["ctor"]), q));
                            crate::tj::FORDER.with(|f| f.set(was));
                            v["alt"] = alt.unwrap_or(json!({"m": [], "b": [], "q": 1, "n": 0, "ex": true}));
                        }
                        v
                    }
                    "compose" => aff_json(&aff_from(&sc["f"]).compose(&aff_from(&sc["g"])), q),
                    "stack" => aff_json(&aff_from(&sc["f"]).stack(&aff_from(&sc["g"])), q),
                    "add" | "sub" | "mul" | "div" | "rem" => {
                        let f = aff_from(&sc["f"]);
                        let g = aff_from(&sc["g"]);
                        // all ownership variants: &f op &g, f op g, f op &g
                        let (a, b, c) = match op {
                            "add" => ((&f).add(&g), f.clone().add(g.clone()), f.clone().add(&g)),
                            "sub" => ((&f).sub(&g), f.clone().sub(g.clone()), f.clone().sub(&g)),
                            "mul" => ((&f).mul(&g), f.clone().mul(g.clone()), f.clone().mul(&g)),
                            "div" => ((&f).div(&g), f.clone().div(g.clone()), f.clone().div(&g)),
                            _ => ((&f).rem(&g), f.clone().rem(g.clone()), f.clone().rem(&g)),
                        };
                        json!({"rr": aff_json(&a, q), "oo": aff_json(&b, q), "or": aff_json(&c, q)})
                    }
                    "neg" => { let f = aff_from(&sc["f"]); json!({"o": aff_json(&f.clone().neg(), q), "r": aff_json(&(&f).neg(), q), "negate": aff_json(&f.clone().negate(), q)}) }
                    "row" => aff_json(&aff_from(&sc["f"]).row(us(&sc["row"])).to_owned(), q),
                    "row_iter" => Value::Array(aff_from(&sc["f"]).row_iter().map(|r| aff_json(&r.to_owned(), q)).collect()),
                    "remove_rows" => aff_json(&aff_from(&sc["f"]).remove_rows(sc["rows"].as_array().unwrap().iter().map(|x| x.as_u64().unwrap() as usize)), q),
                    "remove_zero_rows" => aff_json(&aff_from(&sc["f"]).remove_zero_rows(), q),
                    "remove_zero_columns" => aff_json(&aff_from(&sc["f"]).remove_zero_columns(), q),
                    "rzc_rzr" => aff_json(&aff_from(&sc["f"]).remove_zero_columns().remove_zero_rows(), q),
                    "from_row_iter" => { let f = aff_from(&sc["f"]);
                        let rows: Vec<_> = f.mat.rows().into_iter().zip(f.bias.iter()).collect();
                        aff_json(&AffFunc::from_row_iter(f.indim(), f.outdim(), rows), q) }
                    "view_owned" => { let f = aff_from(&sc["f"]); aff_json(&f.view().to_owned(), q) }
                    "as_polytope" => { let f = aff_from(&sc["f"]); poly_json(&f.as_polytope(), q) }
                    "as_function" => { let p = poly_from(&sc["f"]); aff_json(&p.as_function(), q) }
                    "convert_to" => { let p = poly_from(&sc["f"]); aff_json(&p.convert_to(repr_of(sc["repr"].as_str().unwrap())), q) }
                    "apply" => { let f = aff_from(&sc["f"]); let den = sc["den"].as_f64().unwrap();
                        Value::Array(grid(f.indim(), 2).iter().map(|x| { let pt = Array1::from_iter(x.iter().map(|v| *v as f64 / den));
                            let mut ex = true; json!([x, arr1_json(&f.apply(&pt), q * den, &mut ex)]) }).collect()) }
                    "apply_transpose" => { let f = aff_from(&sc["f"]); let den = sc["den"].as_f64().unwrap();
                        Value::Array(grid(f.outdim(), 2).iter().map(|x| { let pt = Array1::from_iter(x.iter().map(|v| *v as f64 / den));
                            let mut ex = true; json!([x, arr1_json(&f.apply_transpose(&pt), q * den, &mut ex)]) }).collect()) }
                    "views" => { let f = aff_from(&sc["f"]);
                        let g = AffFunc::from_mats(f.matrix_view().to_owned(), f.bias_view().to_owned());
                        json!({"f": aff_json(&g, q), "indim": f.indim(), "outdim": f.outdim(), "ncons": f.clone().as_polytope().n_constraints()}) }
                    "reset_row" => { let mut f = aff_from(&sc["f"]); f.reset_row(us(&sc["row"])); aff_json(&f, q) }
                    other => panic!("unknown aff op {}", other),
                }
            });
            match r {
                Ok(v) => emit(json!({"op": op, "res": "ok", "out": v})),
                Err(_) => emit(json!({"op": op, "res": "panic", "out": {"none": true}})),
            }
        }
        // LP layer
        "lp" => {
            let p = poly_from(&sc["p"]);
            let c = vecf(&sc["c"], 1.0);
            let st = guarded(|| p.status());
            let feas = guarded(|| p.is_feasible());
            let sol = guarded(|| p.solve_linprog(c.clone(), false));
            let cheb = guarded(|| { let (prog, cost) = p.chebyshev_center(); let s = prog.solve_linprog(cost.clone(), false);
                                    (poly_json(&prog, q), { let mut ex = true; arr1_json(&cost, 1.0, &mut ex) }, status_json(&s)) });
            emit(json!({"op": "lp", "res": "ok", "p": poly_json(&p, q), "c": sc["c"],
                "status": st.as_ref().map(status_json).unwrap_or(json!({"st": "P", "w": {"p": [], "ok": true}})),
                "is_feasible": match feas { Ok(b) => json!(if b { 1 } else { 0 }), Err(_) => json!(2) },
                "solve": sol.as_ref().map(status_json).unwrap_or(json!({"st": "P", "w": {"p": [], "ok": true}})),
                "cheb": match cheb { Ok((pr, co, s)) => json!({"res": "ok", "prog": pr, "cost": co, "sol": s}), Err(_) => json!({"res": "panic"}) }}));
        }
        // mirror_points (C05)
        "mirror" => {
            let p = poly_from(&sc["p"]);
            let pts = sc["pts"].as_array().unwrap();
            let d = p.indim();
            let mut arr = Array2::<f64>::zeros((d, pts.len()));
            for (j, pt) in pts.iter().enumerate() { for (i, x) in pt.as_array().unwrap().iter().enumerate() { arr[[i, j]] = x.as_f64().unwrap() / 2.0; } }
            let n_iter = us(&sc["iters"]);
            let r = guarded(|| affinitree::pwl::afftree::AffTree::<2>::mirror_points(&p, &arr, n_iter));
            match r {
                Ok(Some((sol, it))) => emit(json!({"op": "mirror", "res": "ok", "found": true, "iter": it, "p": poly_json(&p, q),
                    "points": sol.columns().into_iter().map(|c| witness_json(&c.to_owned())).collect::<Vec<_>>()})),
                Ok(None) => emit(json!({"op": "mirror", "res": "ok", "found": false, "iter": 0, "p": poly_json(&p, q), "points": []})),
                Err(_) => emit(json!({"op": "mirror", "res": "panic", "found": false, "iter": 0, "p": poly_json(&p, q), "points": []})),
            }
        }
        other => panic!("unknown linalg kind {}", other),
    }
}
