//! Predefined trees by name (distill::schema and AffTree constructors), shared by several families.
use affinitree::distill::schema;
use affinitree::pwl::afftree::AffTree;
use serde_json::Value;

use crate::tj::*;
use crate::util::us;

fn f(v: &Value, q: f64) -> f64 {
    v.as_f64().unwrap() / q
}

/// {name, dim, row, q, params...} -> tree; panics are left to the caller's guard
pub fn make(s: &Value) -> AffTree<2> {
    let q = s.get("q").and_then(|v| v.as_f64()).unwrap_or(1.0);
    let dim = us(&s["dim"]);
    let row = us(&s["row"]);
    match s["name"].as_str().unwrap() {
        "partial_ReLU" => schema::partial_ReLU(dim, row),
        "partial_leaky_ReLU" => schema::partial_leaky_ReLU(dim, row, f(&s["alpha"], q)),
        "partial_hard_tanh" => schema::partial_hard_tanh(dim, row, f(&s["min"], q), f(&s["max"], q)),
        "partial_hard_shrink" => schema::partial_hard_shrink(dim, row, f(&s["lambda"], q)),
        "partial_hard_sigmoid" => schema::partial_hard_sigmoid(dim, row),
        "partial_threshold" => schema::partial_threshold(dim, row, f(&s["threshold"], q), f(&s["value"], q)),
        "argmax" => schema::argmax(dim),
        "class_characterization" => schema::class_characterization(dim, us(&s["clazz"])),
        "inf_norm" => schema::inf_norm(dim,
            if s["hasmin"].as_bool().unwrap_or(false) { Some(f(&s["min"], q)) } else { None },
            if s["hasmax"].as_bool().unwrap_or(false) { Some(f(&s["max"], q)) } else { None }),
        "new" => AffTree::<2>::new(dim),
        "from_aff" => AffTree::<2>::from_aff(aff_from(&s["aff"])),
        "from_poly" => {
            let ff = if s["hasf"].as_bool().unwrap_or(false) { Some(aff_from(&s["f"])) } else { None };
            AffTree::<2>::from_poly(poly_from(&s["poly"]), aff_from(&s["t"]), ff.as_ref()).expect("from_poly")
        }
        other => panic!("unknown schema {}", other),
    }
}
