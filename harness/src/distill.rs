//! Families "schema" (C17), "distill" (C01, C06 terminal bounds) and "arch" (C18).
use affinitree::distill::arch::{Architecture, TensorShape};
use affinitree::distill::builder::{afftree_from_layers, read_layers, Layer};
use affinitree::linalg::affine::AffFunc;
use affinitree::pwl::afftree::AffTree;
use ndarray::Array1;
use serde_json::{json, Value};

use crate::afftree::{eval_grid, none};
use crate::tj::*;
use crate::util::us;
use crate::{guarded, Out};

fn layer_from(l: &Value) -> Layer {
    match l["k"].as_str().unwrap() {
        "linear" => Layer::Linear(aff_from(&l["a"])),
        "relu" => Layer::ReLU(us(&l["row"])),
        "leaky" => Layer::LeakyReLU(us(&l["row"]), l["alpha"].as_f64().unwrap() / l["q"].as_f64().unwrap()),
        "hard_tanh" => Layer::HardTanh(us(&l["row"])),
        "hard_sigmoid" => Layer::HardSigmoid(us(&l["row"])),
        "argmax" => Layer::Argmax,
        "class_char" => Layer::ClassChar(us(&l["c"])),
        other => panic!("unknown layer {}", other),
    }
}

fn layer_json(l: &Layer, q: f64) -> Value {
    match l {
        Layer::Linear(a) => json!({"k": "linear", "a": aff_json(a, q), "row": 0}),
        Layer::ReLU(r) => json!({"k": "relu", "row": r}),
        Layer::LeakyReLU(r, _) => json!({"k": "leaky", "row": r}),
        Layer::HardTanh(r) => json!({"k": "hard_tanh", "row": r}),
        Layer::HardSigmoid(r) => json!({"k": "hard_sigmoid", "row": r}),
        Layer::Argmax => json!({"k": "argmax", "row": 0}),
        Layer::ClassChar(c) => json!({"k": "class_char", "row": c}),
    }
}

pub fn run_schema(sc: &Value, id: usize, out: Out) {
    let spec = &sc["spec"];
    let q = spec.get("q").and_then(|v| v.as_f64()).unwrap_or(1.0);
    match guarded(|| crate::schema::make(spec)) {
        Ok(t) => out(json!({"fam": "schema", "sc": id, "first": true, "spec": spec, "res": "ok", "tree": tree_json(&t, q), "grid": eval_grid(&t, q, 2, if t.in_dim() >= 3 { 2 } else { 4 })})),
        Err(_) => out(json!({"fam": "schema", "sc": id, "first": true, "spec": spec, "res": "panic", "tree": none(), "grid": none()})),
    }
}

/// from_slice(ref) ; compose(tree) ; remove_axes(mask)  = restriction of the tree to an axis-aligned slice
pub fn run_slice(sc: &Value, id: usize, out: Out) {
    let q = sc.get("q").and_then(|v| v.as_f64()).unwrap_or(1.0);
    let tree: AffTree<2> = crate::afftree::build(sc["lhs"].as_array().unwrap());
    let mask: Vec<bool> = sc["mask"].as_array().unwrap().iter().map(|v| v.as_bool().unwrap()).collect(); // true = axis kept
    let rf = sc["ref"].as_array().unwrap();
    let pt = Array1::from_iter(mask.iter().zip(rf.iter()).map(|(m, r)| if *m { f64::NAN } else { r.as_f64().unwrap() / q }));
    if sc.get("direct").and_then(|v| v.as_bool()).unwrap_or(false) {
        // infeasible_elimination ; remove_axes ; infeasible_elimination on the tree itself: the slice at 0 of the masked coordinates
        let r = guarded(|| {
            let mut s = tree.clone();
            s.infeasible_elimination();
            s.remove_axes(&Array1::from_iter(mask.iter().cloned())).expect("remove_axes");
            let mid = s.clone();
            s.infeasible_elimination();
            let mut s2 = s.clone();
            s2.infeasible_elimination();
            (mid, s, s2)
        });
        let base = json!({"fam": "slice", "sc": id, "first": true, "q": q as i64, "tree": tree_json(&tree, q), "mask": sc["mask"], "ref": sc["ref"], "prune": true, "direct": true});
        let mut ev = base.clone();
        match r {
            Ok((mid, s, s2)) => { ev["res"] = json!("ok"); ev["mid"] = tree_json(&mid, q); ev["post"] = tree_json(&s, q); ev["post2"] = tree_json(&s2, q); ev["grid"] = eval_grid(&s, q, 2, 4); }
            Err(_) => { ev["res"] = json!("panic"); ev["mid"] = none(); ev["post"] = none(); ev["post2"] = none(); ev["grid"] = none(); }
        }
        out(ev);
        return;
    }
    let r = guarded(|| {
        let mut s = AffTree::<2>::from_slice(&pt);
        s.compose::<false, false>(&tree);
        if sc.get("prune").and_then(|v| v.as_bool()).unwrap_or(false) {
            // slicing makes many paths infeasible; pruning them leaves holes in the arena before remove_axes
            s.infeasible_elimination();
        }
        s.remove_axes(&Array1::from_iter(mask.iter().cloned())).expect("remove_axes");
        s
    });
    match r {
        Ok(s) => out(json!({"fam": "slice", "sc": id, "first": true, "q": q as i64, "tree": tree_json(&tree, q), "mask": sc["mask"], "ref": sc["ref"], "res": "ok", "prune": sc.get("prune").cloned().unwrap_or(json!(false)),
                            "post": tree_json(&s, q), "grid": eval_grid(&s, q, 2, 4)})),
        Err(_) => out(json!({"fam": "slice", "sc": id, "first": true, "q": q as i64, "tree": tree_json(&tree, q), "mask": sc["mask"], "ref": sc["ref"], "res": "panic", "prune": sc.get("prune").cloned().unwrap_or(json!(false)), "post": none(), "grid": none()})),
    }
}

fn precondition(pre: &Value, dim: usize) -> Option<AffTree<2>> {
    match pre["kind"].as_str().unwrap_or("none") {
        "poly" => Some(AffTree::<2>::from_poly(poly_from(&pre["poly"]), AffFunc::identity(dim), None).expect("from_poly")),
        _ => None,
    }
}

/// divides every decision predicate by the largest power of two that divides all of its entries (exact; the half-space is unchanged)
fn reduce_pow2(t: &AffTree<2>) -> AffTree<2> {
    let mut c = t.clone();
    let idxs: Vec<usize> = c.tree.decision_indices().collect();
    for i in idxs {
        let nd = c.tree.node_value_mut(i).unwrap();
        let vals: Vec<f64> = nd.aff.mat.iter().chain(nd.aff.bias.iter()).cloned().filter(|v| *v != 0.0).collect();
        if vals.is_empty() || vals.iter().any(|v| v.fract() != 0.0 || v.abs() > 9.0e15) { continue; }
        let mut e = 0;
        while e < 60 && vals.iter().all(|v| (v / 2f64.powi(e + 1)).fract() == 0.0) { e += 1; }
        if e > 0 { let f = 2f64.powi(-e); nd.aff.mat.mapv_inplace(|x| x * f); nd.aff.bias.mapv_inplace(|x| x * f); }
    }
    c
}

pub fn run_distill(sc: &Value, id: usize, out: Out) {
    let q = sc.get("q").and_then(|v| v.as_f64()).unwrap_or(1.0);
    let dim = us(&sc["dim"]);
    let mut layers: Vec<Layer> = sc["layers"].as_array().unwrap().iter().map(layer_from).collect();
    // "wscale": the first linear layer is multiplied by 2^k. For positively homogeneous activations followed by an argmax / class head
    // the network function is unchanged, but all numbers inside the tree are ill-conditioned; decisions are logged reduced by powers of two
    let wscale = sc.get("wscale").and_then(|v| v.as_i64()).unwrap_or(0) as i32;
    if wscale != 0 {
        // first linear layer: weights and bias times 2^k; later linear layers: bias times 2^k (the outputs of every layer are scaled by 2^k)
        let f = 2f64.powi(wscale);
        let mut first = true;
        for l in layers.iter_mut() {
            if let Layer::Linear(a) = l {
                if first { a.mat.mapv_inplace(|x| x * f); first = false; }
                a.bias.mapv_inplace(|x| x * f);
            }
        }
    }
    let r = guarded(|| afftree_from_layers(dim, &layers, precondition(&sc["pre"], dim)));
    match r {
        Ok(t) => out(json!({"fam": "distill", "sc": id, "first": true, "q": q as i64, "dim": dim, "layers": sc["layers"], "pre": sc["pre"], "res": "ok", "wscale": wscale,
                            "tree": if wscale != 0 { tree_json(&reduce_pow2(&t), q) } else { tree_json(&t, q) },
                            "grid": eval_grid(&t, q, 2, 4), "num_terminals": t.num_terminals(), "len": t.len()})),
        Err(_) => out(json!({"fam": "distill", "sc": id, "first": true, "q": q as i64, "dim": dim, "layers": sc["layers"], "pre": sc["pre"], "res": "panic", "wscale": wscale,
                             "tree": none(), "grid": none(), "num_terminals": 0, "len": 0})),
    }
}

fn shape_dim(s: &TensorShape) -> usize {
    s.max_dim()
}

/// Architecture builder calls, then distillation of the whole and of every split
pub fn run_arch(sc: &Value, id: usize, out: Out) {
    let q = sc.get("q").and_then(|v| v.as_f64()).unwrap_or(1.0);
    let indim = us(&sc["dim"]);
    let mut arch = Architecture::new(TensorShape::Flat { in_dim: indim });
    let mut calls: Vec<Value> = Vec::new();
    for c in sc["calls"].as_array().unwrap() {
        let name = c["call"].as_str().unwrap();
        let r = guarded(|| match name {
            "linear" => arch.linear(aff_from(&c["a"])).is_ok(),
            "partial_relu" => arch.partial_relu(us(&c["idx"])).is_ok(),
            "relu" => arch.relu().is_ok(),
            "partial_leaky_relu" => arch.partial_leaky_relu(us(&c["idx"]), 0.5).is_ok(),
            "partial_leaky_relu_one" => arch.partial_leaky_relu(us(&c["idx"]), 1.0).is_ok(),
            "leaky_relu" => arch.leaky_relu(0.5).is_ok(),
            "partial_hard_tanh" => arch.partial_hard_tanh(us(&c["idx"])).is_ok(),
            "hard_tanh" => arch.hard_tanh().is_ok(),
            "partial_hard_sigmoid" => arch.partial_hard_sigmoid(us(&c["idx"])).is_ok(),
            "hard_sigmoid" => arch.hard_sigmoid().is_ok(),
            "argmax" => arch.argmax().is_ok(),
            other => panic!("unknown call {}", other),
        });
        calls.push(json!({"call": c, "res": match r { Ok(true) => "ok", Ok(false) => "err", Err(_) => "panic" },
                          "shape": shape_dim(&arch.current_shape), "n_ops": arch.operators.len(),
                          "op_shapes": arch.operators.iter().map(|(_, s)| shape_dim(s)).collect::<Vec<_>>()}));
    }
    let n = arch.operators.len();
    let ops_json: Vec<Value> = arch.operators().map(|l| layer_json(l, q)).collect();
    let whole = guarded(|| afftree_from_layers(indim, arch.operators(), None));
    let whole_j = match &whole { Ok(t) => json!({"res": "ok", "tree": tree_json(t, q)}), Err(_) => json!({"res": "panic", "tree": none()}) };
    // every split point: extract_range(0, k) and extract_range(k, n)
    let mut splits: Vec<Value> = Vec::new();
    if whole.is_ok() {
        for k in 1..n {
            let r = guarded(|| {
                let a = arch.extract_range(0, k).expect("extract_range(0,k)");
                let b = arch.extract_range(k, n).expect("extract_range(k,n)");
                let ta = afftree_from_layers(shape_dim(&a.input_shape), a.operators(), None);
                let tb = afftree_from_layers(shape_dim(&b.input_shape), b.operators(), None);
                // staged distillation: the tree of the first part is the precondition of the second part
                let staged = guarded(|| afftree_from_layers(indim, b.operators(), Some(ta.clone())));
                json!({"k": k, "res": "ok", "staged": match &staged { Ok(t) => json!({"res": "ok", "tree": tree_json(t, q)}), Err(_) => json!({"res": "panic", "tree": none()}) }, "in_a": shape_dim(&a.input_shape), "out_a": shape_dim(&a.current_shape), "in_b": shape_dim(&b.input_shape),
                       "out_b": shape_dim(&b.current_shape), "n_a": a.operators.len(), "n_b": b.operators.len(),
                       "ta": tree_json(&ta, q), "tb": tree_json(&tb, q)})
            });
            splits.push(r.unwrap_or(json!({"k": k, "res": "panic"})));
        }
    }
    // every sub-range (s, e) with 0 <= s, e <= n + 1: result, input / output shape and number of operators
    let mut ranges: Vec<Value> = Vec::new();
    for s0 in 0..=(n + 1) {
        for e0 in 0..=(n + 1) {
            let r = guarded(|| arch.extract_range(s0, e0).map(|a| (shape_dim(&a.input_shape), shape_dim(&a.current_shape), a.operators.len(),
                                                                a.operators.iter().map(|(_, sh)| shape_dim(sh)).collect::<Vec<_>>())));
            ranges.push(match r {
                Ok(Ok((i, o, k, shs))) => json!({"s": s0, "e": e0, "res": "ok", "in": i, "out": o, "n": k, "shapes": shs}),
                Ok(Err(_)) => json!({"s": s0, "e": e0, "res": "err", "in": 0, "out": 0, "n": 0, "shapes": []}),
                Err(_) => json!({"s": s0, "e": e0, "res": "panic", "in": 0, "out": 0, "n": 0, "shapes": []}),
            });
        }
    }
    let final_shapes: Vec<usize> = arch.operators.iter().map(|(_, sh)| shape_dim(sh)).collect();
    out(json!({"fam": "arch", "sc": id, "first": true, "q": q as i64, "dim": indim, "calls": calls, "ops": ops_json, "whole": whole_j, "splits": splits,
               "ranges": ranges, "op_shapes": final_shapes,
               "invalid_ranges": [guarded(|| arch.extract_range(0, n + 1).is_err()).unwrap_or(false), guarded(|| arch.extract_range(n, n).is_err()).unwrap_or(false)]}));
}

/// npz dialect: the script lists entries {name, kind: "weights"|"bias"|"marker", data}; the harness writes the file and reads it back
pub fn run_npz(sc: &Value, id: usize, out: Out) {
    use ndarray::{Array1 as A1, Array2};
    use ndarray_npy::NpzWriter;
    let q = sc.get("q").and_then(|v| v.as_f64()).unwrap_or(1.0);
    let dir = std::env::temp_dir().join(format!("conform_npz_{}_{}", std::process::id(), id));
    let _ = std::fs::create_dir_all(&dir);
    let path = dir.join("net.npz");
    {
        let mut w = NpzWriter::new(std::fs::File::create(&path).unwrap());
        for e in sc["entries"].as_array().unwrap() {
            let name = e["name"].as_str().unwrap();
            match e["kind"].as_str().unwrap() {
                "weights" => {
                    let rows = e["data"].as_array().unwrap();
                    let d = rows[0].as_array().unwrap().len();
                    let mut m = Array2::<f64>::zeros((rows.len(), d));
                    for (i, r) in rows.iter().enumerate() { for (j, x) in r.as_array().unwrap().iter().enumerate() { m[[i, j]] = x.as_f64().unwrap(); } }
                    let m = crate::tj::layout(m);
                    w.add_array(name, &m).unwrap();
                }
                "bias" => { let v = A1::from_iter(e["data"].as_array().unwrap().iter().map(|x| x.as_f64().unwrap())); w.add_array(name, &v).unwrap(); }
                _ => { let v = A1::<f64>::zeros(0); w.add_array(name, &v).unwrap(); }
            }
        }
        w.finish().unwrap();
    }
    let r = guarded(|| read_layers(&path));
    let _ = std::fs::remove_dir_all(&dir);
    match r {
        Ok(Ok(layers)) => out(json!({"fam": "npz", "sc": id, "first": true, "q": q as i64, "entries": sc["entries"], "script_net": sc["net"], "res": "ok",
                                     "layers": layers.iter().map(|l| layer_json(l, q)).collect::<Vec<_>>()})),
        Ok(Err(_)) => out(json!({"fam": "npz", "sc": id, "first": true, "q": q as i64, "entries": sc["entries"], "script_net": sc["net"], "res": "err", "layers": []})),
        Err(_) => out(json!({"fam": "npz", "sc": id, "first": true, "q": q as i64, "entries": sc["entries"], "script_net": sc["net"], "res": "panic", "layers": []})),
    }
}
