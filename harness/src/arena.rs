//! Families "arena" (C12) and "iter" (C13): generic Tree<i64, K>.
use affinitree::tree::graph::Tree;
use affinitree::tree::iter::{Bfs, DfsEdge, DfsPre, TraversalMut};
use serde_json::{json, Value};

use crate::util::{is, us};
use crate::{guarded, Out};

pub fn tree_json<const K: usize>(t: &Tree<i64, K>) -> Value {
    let nodes: Vec<Value> = t
        .node_iter()
        .map(|(i, nd)| {
            json!({
                "i": i,
                "v": nd.value,
                "p": nd.parent.map(|p| p as i64).unwrap_or(-1),
                "ch": nd.children.iter().map(|c| c.map(|c| c as i64).unwrap_or(-1)).collect::<Vec<_>>(),
                "leaf": nd.isleaf,
            })
        })
        .collect();
    // root index: get_root_idx panics on an empty tree
    let root = guarded(|| t.get_root_idx() as i64).unwrap_or(-1);
    json!({"root": root, "len": t.len(), "nodes": nodes})
}

/// Read-only accessors of the tree, called for every index 0..=max+1 (the last one is vacant) on a clone;
/// the clone is compared with the original afterwards ("changed").
pub fn acc_json<const K: usize>(t: &Tree<i64, K>) -> Value {
    let mut c = t.clone();
    let maxi = t.node_iter().map(|(i, _)| i).max().unwrap_or(0);
    let edge = |r: Result<Result<(usize, i64, usize, usize, i64), ()>, String>| match r {
        Ok(Ok((s, sv, l, d, tv))) => json!({"res": "ok", "src": s, "label": l, "dst": d, "sv": sv, "tv": tv}),
        Ok(Err(_)) => json!({"res": "err", "src": -1, "label": -1, "dst": -1, "sv": -1, "tv": -1}),
        Err(_) => json!({"res": "panic", "src": -1, "label": -1, "dst": -1, "sv": -1, "tv": -1}),
    };
    let scalar = |r: Result<Result<i64, ()>, String>| match r {
        Ok(Ok(v)) => json!({"res": "ok", "v": v}),
        Ok(Err(_)) => json!({"res": "err", "v": -1}),
        Err(_) => json!({"res": "panic", "v": -1}),
    };
    let mut rows = Vec::new();
    for i in 0..=maxi + 1 {
        let parent = edge(guarded(|| t.parent(i).map(|e| (e.source_idx, *e.source_value, e.label, e.target_idx, *e.target_value)).map_err(|_| ())));
        let parent_mut = edge(guarded(|| c.parent_mut(i).map(|e| (e.source_idx, *e.source_value, e.label, e.target_idx, *e.target_value)).map_err(|_| ())));
        let child: Vec<Value> = (0..K).map(|l| edge(guarded(|| t.child(i, l).map(|e| (e.source_idx, *e.source_value, e.label, e.target_idx, *e.target_value)).map_err(|_| ())))).collect();
        let child_mut: Vec<Value> = (0..K).map(|l| edge(guarded(|| c.child_mut(i, l).map(|e| (e.source_idx, *e.source_value, e.label, e.target_idx, *e.target_value)).map_err(|_| ())))).collect();
        let children = match guarded(|| t.children(i).map(|e| { let (s, sv, l, d, tv) = e.extract(); json!({"res": "ok", "src": s, "label": l, "dst": d, "sv": *sv, "tv": *tv}) }).collect::<Vec<_>>()) {
            Ok(v) => json!({"res": "ok", "list": v}),
            Err(_) => json!({"res": "panic", "list": []}),
        };
        let children_rev = match guarded(|| t.children(i).rev().map(|e| { let g = e.edge(); json!([g.source_idx, g.label, g.target_idx]) }).collect::<Vec<_>>()) {
            Ok(v) => json!({"res": "ok", "list": v}),
            Err(_) => json!({"res": "panic", "list": []}),
        };
        let node_children = match guarded(|| t.tree_node(i).map(|nd| nd.children_iter().map(|(l, d)| json!([l, d])).collect::<Vec<_>>()).map_err(|_| ())) {
            Ok(Ok(v)) => json!({"res": "ok", "list": v}),
            Ok(Err(_)) => json!({"res": "err", "list": []}),
            Err(_) => json!({"res": "panic", "list": []}),
        };
        rows.push(json!({
            "i": i,
            "contains": guarded(|| t.contains(i)).unwrap_or(false),
            "is_root": guarded(|| t.is_root(i)).unwrap_or(false),
            "is_leaf": scalar(guarded(|| t.is_leaf(i).map(|b| b as i64).map_err(|_| ()))),
            "value": scalar(guarded(|| t.node_value(i).map(|v| *v).map_err(|_| ()))),
            "value_mut": scalar(guarded(|| c.node_value_mut(i).map(|v| *v).map_err(|_| ()))),
            "nchild": scalar(guarded(|| Ok(t.num_children(i) as i64))),
            "tnode_mut": scalar(guarded(|| c.tree_node_mut(i).map(|nd| nd.value).map_err(|_| ()))),
            "tnode2": scalar(guarded(|| { let r = t.get_root_idx(); if r == i { Ok(-2) } else { c.tree_node2_mut(i, r).map(|(a, _)| a.value).map_err(|_| ()) } })),
            "parent": parent, "parent_mut": parent_mut, "child": child, "child_mut": child_mut,
            "children": children, "children_rev": children_rev, "node_children": node_children,
        }));
    }
    json!({"rows": rows, "is_empty": t.is_empty(), "changed": tree_json(&c) != tree_json(t)})
}

/// Applies one op; returns (res, ret)
pub fn apply_op<const K: usize>(t: &mut Tree<i64, K>, op: &Value) -> (String, i64) {
    let name = op["op"].as_str().unwrap_or("");
    let p = us(&op["p"]);
    let l = us(&op["l"]);
    let v = is(&op["v"]);
    let r: Result<Result<i64, String>, String> = guarded(|| match name {
        "add_root" => Ok(t.add_root(v) as i64),
        "add_child" => t.add_child_node(p, l, v).map(|i| i as i64).map_err(|e| format!("{:?}", e)),
        "try_remove_child" => t.try_remove_child(p, l).map(|_| -1).map_err(|e| format!("{:?}", e)),
        "remove_child" => {
            t.remove_child(p, l);
            Ok(-1)
        }
        "remove_all_descendants" => t.remove_all_descendants(p).map(|n| n as i64).map_err(|e| format!("{:?}", e)),
        "merge_child" => t.merge_child_with_parent(p, l).map(|_| -1).map_err(|e| format!("{:?}", e)),
        "update_node" => t.update_node(p, v).map(|_| -1).map_err(|e| format!("{:?}", e)),
        _ => panic!("unknown op {}", name),
    });
    match r {
        Ok(Ok(ret)) => ("ok".into(), ret),
        Ok(Err(_)) => ("err".into(), -1),
        Err(_) => ("panic".into(), -1),
    }
}

fn run_k<const K: usize>(sc: &Value, id: usize, out: Out) {
    let ops = sc["ops"].as_array().unwrap();
    let all = sc.get("all").and_then(|v| v.as_bool()).unwrap_or(false);
    let mut t: Tree<i64, K> = Tree::new();
    let n = ops.len();
    let mut orphans = false;
    for (j, op) in ops.iter().enumerate() {
        let record = all || j + 1 == n;
        // add_root on a non-empty tree is the documented exception to reachability
        let orphans_before = orphans;
        if op["op"].as_str() == Some("add_root") && t.len() > 0 {
            orphans = true;
        }
        let pre = if record { tree_json(&t) } else { Value::Null };
        let (res, ret) = apply_op(&mut t, op);
        if record {
            out(json!({"fam": "arena", "sc": id, "step": j, "first": !all || j == 0, "k": K, "op": op, "orphans": orphans_before,
                       "pre": pre, "post": tree_json(&t), "acc": acc_json(&t), "res": res, "ret": ret,
                       "exp": if j + 1 == n { sc.get("exp").cloned().unwrap_or(json!({"res": "none", "ret": -1})) } else { json!({"res": "none", "ret": -1}) }}));
        }
    }
}

pub fn run(sc: &Value, id: usize, out: Out) {
    match us(&sc["k"]) {
        2 => run_k::<2>(sc, id, out),
        3 => run_k::<3>(sc, id, out),
        k => panic!("unsupported K {}", k),
    }
}

// ------------------------------------------------------------------------------------------ iterators (C13)

fn build<const K: usize>(ops: &[Value]) -> Tree<i64, K> {
    let mut t: Tree<i64, K> = Tree::new();
    for op in ops {
        apply_op(&mut t, op);
    }
    t
}

fn hint_json(h: (usize, Option<usize>)) -> Value {
    json!([h.0, h.1.map(|x| x as i64).unwrap_or(-1)])
}

/// Runs one cursor schedule: sched is a list of "n" (next) / "s" (skip_subtree).
/// After every call the size_hint is recorded; a panic ends the run and is recorded.
fn run_cursor<T, F, const K: usize>(t: &Tree<i64, K>, start: usize, sched: &[Value], item: F) -> Value
where
    T: TraversalMut,
    F: Fn(T::Item) -> Value,
{
    let mut steps: Vec<Value> = Vec::new();
    let cur = guarded(|| T::new(t, start));
    let mut cur = match cur {
        Ok(c) => c,
        Err(_) => return json!({"new": "panic", "steps": []}),
    };
    let h0 = hint_json(cur.size_hint());
    for s in sched {
        let call = s.as_str().unwrap_or("n");
        let r = guarded(|| {
            if call == "s" {
                cur.skip_subtree();
                json!({"call": "s", "res": "ok", "item": {"none": true}})
            } else {
                match cur.next(t) {
                    Some(it) => json!({"call": "n", "res": "ok", "item": item(it)}),
                    None => json!({"call": "n", "res": "ok", "item": {"none": true}}),
                }
            }
        });
        match r {
            Ok(mut v) => {
                let h = guarded(|| hint_json(cur.size_hint())).unwrap_or(json!([-1, -1]));
                v["hint"] = h;
                steps.push(v);
            }
            Err(_) => {
                steps.push(json!({"call": call, "res": "panic", "item": {"none": true}, "hint": [-1, -1]}));
                break;
            }
        }
    }
    json!({"new": "ok", "hint0": h0, "steps": steps})
}

fn run_iter_k<const K: usize>(sc: &Value, id: usize, out: Out) {
    let t: Tree<i64, K> = build(sc["ops"].as_array().unwrap());
    let start = us(&sc["start"]);
    let sched = sc["sched"].as_array().cloned().unwrap_or_default();
    let kind = sc["kind"].as_str().unwrap_or("dfs");
    let node_item = |d: affinitree::tree::iter::DfsNodeData| json!({"none": false, "depth": d.depth, "idx": d.index, "rem": d.n_remaining});
    let run = match kind {
        "dfs" => run_cursor::<DfsPre, _, K>(&t, start, &sched, node_item),
        "bfs" => run_cursor::<Bfs, _, K>(&t, start, &sched, node_item),
        "edge" => run_cursor::<DfsEdge, _, K>(&t, start, &sched, |e: affinitree::tree::iter::EdgeData| {
            json!({"none": false, "src": e.src, "label": e.label, "dest": e.dest})
        }),
        _ => panic!("unknown cursor kind"),
    };
    out(json!({"fam": "iter", "sc": id, "first": true, "k": K, "kind": kind, "start": start,
               "sched": sched, "tree": tree_json(&t), "run": run}));
}

fn metrics_k<const K: usize>(sc: &Value, id: usize, out: Out) {
    // every metric is also computed once before the last build operation on the same object (result discarded): a value memoised
    // there must not survive the operation
    let ops = sc["ops"].as_array().unwrap();
    let t: Tree<i64, K> = {
        let n = ops.len();
        let mut t: Tree<i64, K> = build(&ops[..n.saturating_sub(1)]);
        if t.len() > 0 {
            let _ = guarded(|| (t.depth(), t.depth_stats(), t.num_terminals(), t.len(), t.num_nodes(t.get_root_idx()),
                                t.node_indices().count(), t.terminal_indices().count(), t.dfs_iter().count()));
        }
        if n > 0 { apply_op(&mut t, &ops[n - 1]); }
        t
    };
    let idxs: Vec<usize> = t.node_indices().collect();
    let stats = guarded(|| t.depth_stats());
    let paths: Vec<Value> = idxs
        .iter()
        .map(|&i| {
            let p = guarded(|| t.path_to_node(i));
            match p {
                Ok(Ok(p)) => json!({"i": i, "res": "ok", "path": p.iter().map(|(a, b)| json!([a, b])).collect::<Vec<_>>()}),
                Ok(Err(_)) => json!({"i": i, "res": "err", "path": []}),
                Err(_) => json!({"i": i, "res": "panic", "path": []}),
            }
        })
        .collect();
    let num_nodes: Vec<Value> = idxs.iter().map(|&i| json!([i, guarded(|| t.num_nodes(i) as i64).unwrap_or(-1)])).collect();
    // depth_stats: min, mean, sample variance, max over terminal depths; logged as scaled integers
    // mean * n and variance * n * (n - 1) are integers for integer samples
    let nterm = t.num_terminals() as f64;
    let (smin, smean_n, svar_nn1, smax, sexact) = match stats {
        Ok((mn, mean, var, mx)) => {
            let a = mean * nterm;
            let b = var * nterm * (nterm - 1.0);
            let ex = (a - a.round()).abs() < 1e-6 && (!b.is_finite() || (b - b.round()).abs() < 1e-6);
            (mn as i64, a.round() as i64, if b.is_finite() { b.round() as i64 } else { -1 }, mx as i64, ex)
        }
        Err(_) => (-1, -1, -1, -1, false),
    };
    let terminals_mut = { let mut c = t.clone(); let v = c.terminals_mut().map(|n| json!([n.idx, *n.value])).collect::<Vec<_>>(); v };
    out(json!({"fam": "metrics", "sc": id, "first": true, "k": K, "tree": tree_json(&t),
        "node_indices": t.node_indices().collect::<Vec<_>>(),
        "terminal_indices": t.terminal_indices().collect::<Vec<_>>(),
        "decision_indices": t.decision_indices().collect::<Vec<_>>(),
        "nodes": t.nodes().map(|n| json!([n.idx, n.value])).collect::<Vec<_>>(),
        "terminals": t.terminals().map(|n| json!([n.idx, n.value])).collect::<Vec<_>>(),
        "decisions": t.decisions().map(|n| json!([n.idx, n.value])).collect::<Vec<_>>(),
        "edges": t.edge_iter().map(|e| json!([e.source_idx, e.label, e.target_idx])).collect::<Vec<_>>(),
        "dfs_edges": t.dfs_edge_iter().map(|e| json!([e.src, e.label, e.dest])).collect::<Vec<_>>(),
        "dfs_nodes": t.dfs_iter().map(|d| json!([d.depth, d.index, d.n_remaining])).collect::<Vec<_>>(),
        "bfs_wrap": affinitree::tree::iter::TraversalIter::<Bfs, i64, K>::new(&t, t.get_root_idx()).map(|d| json!([d.depth, d.index, d.n_remaining])).collect::<Vec<_>>(),
        "node_indices_rev": t.node_indices().rev().collect::<Vec<_>>(),
        "terminal_indices_rev": t.terminal_indices().rev().collect::<Vec<_>>(),
        "decision_indices_rev": t.decision_indices().rev().collect::<Vec<_>>(),
        "edges_rev": t.edge_iter().rev().map(|e| json!([e.source_idx, e.label, e.target_idx])).collect::<Vec<_>>(),
        "terminals_mut": terminals_mut,
        "num_terminals": t.num_terminals(), "len": t.len(),
        "depth": guarded(|| t.depth() as i64).unwrap_or(-1),
        "num_nodes": num_nodes, "paths": paths,
        "stats": {"min": smin, "mean_n": smean_n, "var_nn1": svar_nn1, "max": smax, "exact": sexact},
    }));
}

pub fn run_iter(sc: &Value, id: usize, out: Out) {
    let metrics = sc.get("kind").and_then(|v| v.as_str()) == Some("metrics");
    match (us(&sc["k"]), metrics) {
        (2, false) => run_iter_k::<2>(sc, id, out),
        (3, false) => run_iter_k::<3>(sc, id, out),
        (2, true) => metrics_k::<2>(sc, id, out),
        (3, true) => metrics_k::<3>(sc, id, out),
        (k, _) => panic!("unsupported K {}", k),
    }
}
