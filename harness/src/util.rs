use serde_json::Value;

pub fn us(v: &Value) -> usize {
    v.as_u64().unwrap_or(0) as usize
}
pub fn is(v: &Value) -> i64 {
    v.as_i64().unwrap_or(0)
}
